//! C18 Incremental (ReDB) persistence recovers a prefix of what was applied (fault_enumeration).
//!
//! The real server (`spawn_worterbuch`, `PersistenceMode::ReDB`) is driven through its public API
//! (in-process, module `c18`) or, as a real child process that is SIGKILLed, through its unix
//! socket (module `c18_proc`). While it drives a history the harness expands every request the
//! server accepted into the single-key changes it implies (`Step`), in the order in which the
//! server's core task hands them to the ReDB writer task. The server is then stopped cleanly or
//! abruptly at a chosen request index, a new server is started on the same data directory and its
//! complete state (every key outside `$SYS` with value, plain/CAS kind and CAS version) is read
//! back.
//!
//! Oracle: the recovered state equals `R(S_p)` for some prefix `p` of the step sequence (`p` = the
//! whole sequence after a clean stop), where `S_p` is the reference-model state after `p` steps
//! and `R` applies the grave goods and last wills registered at `p` (a restart buries / publishes
//! for every persisted registration). The state recovered by the previous restart of the same
//! data directory is step 0, so nothing durable may be lost by a later crash.
//!
//! This file holds everything that does not depend on the transport: workload generator, the
//! expansion into steps, the oracle, and the in-process driver.

use super::c18_proc;
use crate::{
    Ctx,
    core::{code, par_shards},
    evidence::Evidence,
    findings::Findings,
    model::{self, E_NO_SUCH_VALUE, Entry, Expect, Who},
    rng::{Rng, hash_str, mix},
    server::{Server, server_config},
};
use serde_json::{Value, json};
use std::{
    collections::{BTreeMap, BTreeSet},
    path::{Path, PathBuf},
    sync::Mutex,
    time::{Duration, Instant},
};
use uuid::Uuid;
use worterbuch::server::CloneableWbApi;
use worterbuch_common::{Protocol, WbApi};

pub const PROPERTY: &str = "C18";
/// cset chain restored with CAS version 1
pub const F_CAS_VERSION: &str = "F18-1";
/// a registration deleted by its client is still applied by the next start
pub const F_STALE_REGISTRATION: &str = "F18-2";
/// a persisted registration that the running server ignores as invalid makes the load fail
pub const F_INVALID_REGISTRATION: &str = "F18-3";

const TOPS: [&str; 3] = ["p", "q", "r"];
const MIDS: [&str; 2] = ["m", "n"];
const LEAVES: [&str; 4] = ["0", "1", "2", "3"];

/// generous watchdog for one request; its expiry makes the scenario inconclusive
pub const CALL_TIMEOUT: Duration = Duration::from_secs(30);

// -------------------------------------------------------------------------------------------------
// reference state, steps, the restart function R
// -------------------------------------------------------------------------------------------------

pub type Registrations<T> = BTreeMap<String, T>;

/// reference-model state: user keys + the registrations of the connected clients. Keyed by the
/// client id's text, which is the order in which a restart walks the persisted registrations.
#[derive(Clone, Debug, Default, PartialEq)]
pub struct MState {
    pub store: model::Store,
    pub gg: Registrations<Vec<String>>,
    pub lw: Registrations<Vec<(String, Value)>>,
}

/// one element of the sequence of single-key changes (and registration changes) the server applied
#[derive(Clone, Debug, PartialEq)]
pub enum Step {
    /// key now holds this value; version 0 = plain, n > 0 = CAS version n
    Put { key: String, value: Value, version: u64 },
    Del { key: String },
    /// the deletes of one burial / unanswered pdelete: the order inside the group is not observable
    DelGroup { keys: Vec<String> },
    Gg { client: String, reg: Option<Vec<String>> },
    Lw { client: String, reg: Option<Vec<(String, Value)>> },
}

impl Step {
    pub fn to_json(&self) -> Value {
        match self {
            Step::Put { key, value, version } => {
                if *version == 0 {
                    json!({"put": key, "value": value})
                } else {
                    json!({"put": key, "value": value, "casVersion": version})
                }
            }
            Step::Del { key } => json!({"del": key}),
            Step::DelGroup { keys } => json!({"delGroupUnordered": keys}),
            Step::Gg { client, reg } => json!({"graveGoods": reg, "client": client}),
            Step::Lw { client, reg } => json!({
                "lastWill": reg.as_ref().map(|r| r.iter().map(|(k, v)| json!({"key": k, "value": v})).collect::<Vec<_>>()),
                "client": client}),
        }
    }
    fn class(&self) -> &'static str {
        match self {
            Step::Put { version: 0, .. } => "steps_put_plain",
            Step::Put { .. } => "steps_put_cas",
            Step::Del { .. } => "steps_delete",
            Step::DelGroup { .. } => "steps_delete_group",
            Step::Gg { reg: Some(_), .. } => "steps_grave_goods_registered",
            Step::Gg { reg: None, .. } => "steps_grave_goods_cleared",
            Step::Lw { reg: Some(_), .. } => "steps_last_will_registered",
            Step::Lw { reg: None, .. } => "steps_last_will_cleared",
        }
    }
}

impl MState {
    pub fn apply(&mut self, step: &Step) {
        match step {
            Step::Put { key, value, version } => {
                self.store.map.insert(
                    key.clone(),
                    Entry {
                        value: value.clone(),
                        version: *version,
                    },
                );
            }
            Step::Del { key } => {
                self.store.map.remove(key);
            }
            Step::DelGroup { keys } => {
                for k in keys {
                    self.store.map.remove(k);
                }
            }
            Step::Gg { client, reg } => match reg {
                Some(r) => {
                    self.gg.insert(client.clone(), r.clone());
                }
                None => {
                    self.gg.remove(client);
                }
            },
            Step::Lw { client, reg } => match reg {
                Some(r) => {
                    self.lw.insert(client.clone(), r.clone());
                }
                None => {
                    self.lw.remove(client);
                }
            },
        }
    }
}

/// a grave goods pattern the running server acts on when the session ends (everything else it
/// logs and ignores): non-empty, `#` only as last segment, outside `$SYS`
pub fn valid_gg_pattern(p: &str) -> bool {
    !p.is_empty() && model::pattern_valid(p) && model::segments(p)[0] != model::SYS
}

/// a last will key the running server acts on: a literal key outside `$SYS`
pub fn valid_lw_key(k: &str) -> bool {
    !k.is_empty() && !model::has_wildcard(k) && model::segments(k)[0] != model::SYS
}

pub type Snapshot = BTreeMap<String, Entry>;

/// R: what a start on the persisted state `m` must come up with: the grave goods of every
/// registration buried, then every last will published (as plain values)
pub fn recovered(m: &MState) -> Snapshot {
    let mut s = m.store.map.clone();
    for pats in m.gg.values() {
        for p in pats {
            if valid_gg_pattern(p) {
                s.retain(|k, _| !model::matches(p, k));
            }
        }
    }
    for kvps in m.lw.values() {
        for (k, v) in kvps {
            if valid_lw_key(k) {
                s.insert(
                    k.clone(),
                    Entry {
                        value: v.clone(),
                        version: 0,
                    },
                );
            }
        }
    }
    s
}

/// Recorded finding F18-3: does the load of the persisted state `m` fail? The ReDB load gives up
/// (and the server starts empty) when a last will key does not parse as a literal key, or when a
/// grave goods pattern has a `#` before its last segment and - at the moment it is applied, after
/// the patterns before it - some key lies under the part of the pattern in front of that `#`.
pub fn load_fails(m: &MState) -> bool {
    let mut s = m.store.map.clone();
    for pats in m.gg.values() {
        for p in pats {
            if valid_gg_pattern(p) {
                s.retain(|k, _| !model::matches(p, k));
                continue;
            }
            let segs = model::segments(p);
            if let Some(pos) = segs.iter().position(|x| *x == "#")
                && pos + 1 < segs.len()
            {
                let prefix = &segs[..pos];
                let node_exists = pos == 0
                    || s.keys().any(|k| {
                        let ks = model::segments(k);
                        ks.len() >= pos && prefix.iter().zip(ks.iter()).all(|(a, b)| *a == "?" || a == b)
                    });
                if node_exists {
                    return true;
                }
            }
        }
    }
    m.lw.values().flatten().any(|(k, _)| model::has_wildcard(k))
}

/// the steps of a session's end: grave goods buried pattern by pattern, then the last will
/// published, then both registrations dropped
pub fn session_end_steps(m: &MState, id: &str) -> Vec<Step> {
    let mut out = vec![];
    let mut s = m.clone();
    let mut push = |s: &mut MState, step: Step| {
        s.apply(&step);
        out.push(step);
    };
    for p in m.gg.get(id).cloned().unwrap_or_default() {
        if !valid_gg_pattern(&p) {
            continue;
        }
        let mut keys: Vec<String> = s.store.map.keys().filter(|k| model::matches(&p, k)).cloned().collect();
        match keys.len() {
            0 => {}
            1 => push(&mut s, Step::Del { key: keys.remove(0) }),
            _ => push(&mut s, Step::DelGroup { keys }),
        }
    }
    for (k, v) in m.lw.get(id).cloned().unwrap_or_default() {
        if valid_lw_key(&k) {
            push(
                &mut s,
                Step::Put {
                    key: k,
                    value: v,
                    version: 0,
                },
            );
        }
    }
    push(
        &mut s,
        Step::Gg {
            client: id.to_owned(),
            reg: None,
        },
    );
    push(
        &mut s,
        Step::Lw {
            client: id.to_owned(),
            reg: None,
        },
    );
    out
}

/// all ordered selections (any length, no repetition) of `ids`
fn ordered_subsets(ids: &[String]) -> Vec<Vec<String>> {
    let mut out = vec![vec![]];
    let mut frontier: Vec<Vec<String>> = vec![vec![]];
    for _ in 0..ids.len() {
        let mut next = vec![];
        for sel in &frontier {
            for id in ids {
                if !sel.contains(id) {
                    let mut n = sel.clone();
                    n.push(id.clone());
                    next.push(n);
                }
            }
        }
        out.extend(next.iter().cloned());
        frontier = next;
    }
    out
}

pub fn snapshot_json(s: &Snapshot) -> Value {
    Value::Object(
        s.iter()
            .map(|(k, e)| {
                (
                    k.clone(),
                    if e.version == 0 {
                        json!({"plain": e.value})
                    } else {
                        json!({"cas": e.value, "version": e.version})
                    },
                )
            })
            .collect(),
    )
}

// -------------------------------------------------------------------------------------------------
// requests
// -------------------------------------------------------------------------------------------------

#[derive(Clone, Debug)]
pub enum Op {
    Set { c: usize, key: String, value: Value },
    /// cget, then cset with the version read + skew (0 = a proper CAS step)
    CSet { c: usize, key: String, value: Value, skew: i64 },
    Delete { c: usize, key: String },
    PDelete { c: usize, pattern: String },
    Connect { c: usize },
    Disconnect { c: usize },
    /// `set $SYS/clients/<id>/graveGoods`; None = JSON null
    RegGg { c: usize, patterns: Option<Vec<String>> },
    RegLw { c: usize, kvps: Option<Vec<(String, Value)>> },
    /// `delete $SYS/clients/<id>/graveGoods`
    UnregGg { c: usize },
    UnregLw { c: usize },
    Import { entries: Vec<(String, Entry)> },
}

impl Op {
    pub fn to_json(&self) -> Value {
        match self {
            Op::Set { c, key, value } => json!({"set": key, "value": value, "client": c}),
            Op::CSet { c, key, value, skew } => json!({"cget+cset": key, "value": value, "versionSkew": skew, "client": c}),
            Op::Delete { c, key } => json!({"delete": key, "client": c}),
            Op::PDelete { c, pattern } => json!({"pdelete": pattern, "client": c}),
            Op::Connect { c } => json!({"connect": c}),
            Op::Disconnect { c } => json!({"disconnect": c}),
            Op::RegGg { c, patterns } => json!({"setGraveGoods": patterns, "client": c}),
            Op::RegLw { c, kvps } => json!({
                "setLastWill": kvps.as_ref().map(|r| r.iter().map(|(k, v)| json!({"key": k, "value": v})).collect::<Vec<_>>()),
                "client": c}),
            Op::UnregGg { c } => json!({"deleteGraveGoodsKey": c}),
            Op::UnregLw { c } => json!({"deleteLastWillKey": c}),
            Op::Import { entries } => json!({"import": entries.iter().map(|(k, e)| json!({"key": k, "value": e.value, "casVersion": e.version})).collect::<Vec<_>>()}),
        }
    }
}

/// one request as the transport sees it
#[derive(Clone, Debug)]
pub enum Call {
    Set { slot: usize, key: String, value: Value },
    CGet { key: String },
    CSet { slot: usize, key: String, value: Value, version: u64 },
    Delete { slot: usize, key: String },
    PDelete { slot: usize, pattern: String },
    Import { json: String },
}

#[derive(Clone, Debug, PartialEq)]
pub enum Reply {
    Unit,
    Versioned(Value, u64),
    Value(Value),
    Kvps(Vec<(String, Value)>),
    /// (key, changed) in the order of the answer
    Imported(Vec<(String, bool)>),
}

/// outer error = harness / transport trouble (scenario inconclusive), inner = server's error code
pub type CallResult = Result<Result<Reply, u8>, String>;

#[allow(async_fn_in_trait)]
pub trait Driver {
    async fn call(&mut self, call: Call) -> CallResult;
    /// sends the request without waiting for its answer
    async fn post(&mut self, call: Call) -> Result<(), String>;
    /// new session in this slot; returns the client id
    async fn connect(&mut self, slot: usize) -> Result<String, String>;
    /// ends the session and returns once the server has processed the session's end
    async fn disconnect(&mut self, slot: usize) -> Result<(), String>;
    fn supports_import(&self) -> bool;
    /// complete user-visible state: every key outside `$SYS` with value and CAS version; + the
    /// entry count reported by the server and the number of keys `pget #` returned
    async fn read_back(&mut self) -> Result<(Snapshot, usize, usize), String>;
}

pub fn gg_key(id: &str) -> String {
    format!("$SYS/clients/{id}/graveGoods")
}
pub fn lw_key(id: &str) -> String {
    format!("$SYS/clients/{id}/lastWill")
}
pub fn lw_json(kvps: &[(String, Value)]) -> Value {
    Value::Array(kvps.iter().map(|(k, v)| json!({"key": k, "value": v})).collect())
}
pub fn is_sys(key: &str) -> bool {
    key == "$SYS" || key.starts_with("$SYS/")
}

// -------------------------------------------------------------------------------------------------
// execution bookkeeping (transport independent)
// -------------------------------------------------------------------------------------------------

#[derive(Clone, Debug, Default)]
pub struct Slot {
    pub id: Option<String>,
    pub connected: bool,
}

/// workload options
#[derive(Clone, Debug)]
pub struct Gen {
    /// registrations that the running server ignores as invalid (wildcard in a last will key, `#`
    /// inside a pattern)
    pub invalid_registrations: bool,
    /// clients un-register by deleting their registration key
    pub unregister_by_delete: bool,
    pub imports: bool,
}

pub struct Exec {
    /// durable state at step 0 (what the previous start of this data dir recovered)
    pub base: Snapshot,
    pub m: MState,
    pub steps: Vec<Step>,
    /// index of the request that produced each step
    pub step_req: Vec<usize>,
    pub log: Vec<Value>,
    pub slots: Vec<Slot>,
    pub uid: u64,
    /// harness trouble or an answer of the running server that the model does not expect: the
    /// scenario is not judged (inconclusive)
    pub trouble: Option<String>,
    pub counts: BTreeMap<&'static str, u64>,
    /// some requests of the history were sent without waiting for the answer
    pub unanswered: usize,
}

impl Exec {
    pub fn new(base: Snapshot, uid: u64, slots: usize) -> Exec {
        Exec {
            m: MState {
                store: model::Store { map: base.clone() },
                ..Default::default()
            },
            base,
            steps: vec![],
            step_req: vec![],
            log: vec![],
            slots: vec![Slot::default(); slots],
            uid,
            trouble: None,
            counts: BTreeMap::new(),
            unanswered: 0,
        }
    }

    fn bump(&mut self, what: &'static str) {
        *self.counts.entry(what).or_default() += 1;
    }

    fn push(&mut self, step: Step) {
        self.m.apply(&step);
        self.bump(step.class());
        self.steps.push(step);
        self.step_req.push(self.log.len());
    }

    fn next_uid(&mut self) -> u64 {
        self.uid += 1;
        self.uid
    }

    fn connected(&self) -> Vec<usize> {
        (0..self.slots.len()).filter(|i| self.slots[*i].connected).collect()
    }

    fn id(&self, c: usize) -> String {
        self.slots[c].id.clone().unwrap_or_default()
    }
}

fn gen_key(rng: &mut Rng) -> String {
    format!("{}/{}/{}", rng.pick(&TOPS), rng.pick(&MIDS), rng.pick(&LEAVES))
}

fn gen_pattern(rng: &mut Rng) -> String {
    match rng.below(12) {
        0..=2 => format!("{}/#", rng.pick(&TOPS)),
        3..=5 => format!("{}/{}/#", rng.pick(&TOPS), rng.pick(&MIDS)),
        6 => format!("{}/?/{}", rng.pick(&TOPS), rng.pick(&LEAVES)),
        7 => format!("?/{}/?", rng.pick(&MIDS)),
        8 => format!("{}/{}/?", rng.pick(&TOPS), rng.pick(&MIDS)),
        9 => format!("?/?/{}", rng.pick(&LEAVES)),
        // a bare `#` only rarely: everything outside `$SYS` goes. (Before the fix "wildcards of
        // ordinary clients must not reach the server's $SYS keys" it also removed the other
        // clients' registration keys; such an answer is C08's subject and makes the scenario
        // inconclusive here.)
        10 => {
            if rng.chance(1, 5) {
                "#".to_owned()
            } else {
                format!("{}/#", rng.pick(&TOPS))
            }
        }
        _ => gen_key(rng),
    }
}

fn gen_value(rng: &mut Rng, uid: u64) -> Value {
    match rng.below(20) {
        0..=12 => json!(format!("v{uid}")),
        13..=15 => json!({"id": uid, "pad": "x".repeat(rng.below(200))}),
        16 => json!([uid, null, {"n": 1.5}]),
        17 => json!({"id": uid, "nested": {"list": [1, 2, 3], "s": "ä\"\\\n"}}),
        18 => json!(uid),
        _ => json!({"id": uid, "blob": "y".repeat(500 + rng.below(3000))}),
    }
}

/// next request of a random history, chosen with a view to the current model state
pub fn gen_op(rng: &mut Rng, ex: &mut Exec, g: &Gen, allow_import: bool) -> Op {
    let connected = ex.connected();
    let free: Vec<usize> = (0..ex.slots.len()).filter(|i| !ex.slots[*i].connected).collect();
    if connected.is_empty() {
        return Op::Connect { c: free[rng.below(free.len())] };
    }
    let c = connected[rng.below(connected.len())];
    let existing: Vec<String> = ex.m.store.map.keys().cloned().collect();
    let cas: Vec<String> = ex
        .m
        .store
        .map
        .iter()
        .filter(|(_, e)| e.version > 0)
        .map(|(k, _)| k.clone())
        .collect();
    let uid = ex.next_uid();
    let roll = rng.below(100);
    match roll {
        0..=21 => Op::Set {
            c,
            key: gen_key(rng),
            value: gen_value(rng, uid),
        },
        22..=45 => {
            let key = if !cas.is_empty() && rng.chance(3, 5) {
                cas[rng.below(cas.len())].clone()
            } else {
                gen_key(rng)
            };
            let skew = match rng.below(20) {
                0 => 1,
                1 => -1,
                _ => 0,
            };
            // every fifth cset of an existing key repeats the stored value: only the version changes, and
            // that change has to be persisted like any other
            let value = match ex.m.store.map.get(&key) {
                Some(e) if rng.chance(1, 5) => e.value.clone(),
                _ => gen_value(rng, uid),
            };
            Op::CSet { c, key, value, skew }
        }
        46..=55 => Op::Delete {
            c,
            key: if !existing.is_empty() && rng.chance(4, 5) {
                existing[rng.below(existing.len())].clone()
            } else {
                gen_key(rng)
            },
        },
        56..=62 => Op::PDelete {
            c,
            pattern: gen_pattern(rng),
        },
        63..=68 => {
            if free.is_empty() {
                Op::Disconnect { c }
            } else {
                Op::Connect { c: free[rng.below(free.len())] }
            }
        }
        69..=74 => Op::Disconnect { c },
        75..=82 => {
            let n = rng.range(1, 3);
            let mut patterns: Vec<String> = (0..n).map(|_| gen_pattern(rng)).collect();
            if g.invalid_registrations && rng.chance(1, 60) {
                let bad = match rng.below(3) {
                    0 => format!("{}/#/{}", rng.pick(&TOPS), rng.pick(&LEAVES)),
                    1 => "#/#".to_owned(),
                    _ => format!("#/{}", rng.pick(&MIDS)),
                };
                let at = rng.below(patterns.len() + 1);
                patterns.insert(at, bad);
            }
            Op::RegGg {
                c,
                patterns: Some(patterns),
            }
        }
        83..=90 => {
            let n = rng.range(1, 3);
            let mut kvps: Vec<(String, Value)> = (0..n)
                .map(|i| {
                    let key = if rng.chance(1, 3) {
                        format!("w/l/{}", rng.pick(&LEAVES))
                    } else {
                        gen_key(rng)
                    };
                    (key, json!(format!("will{uid}-{i}")))
                })
                .collect();
            if g.invalid_registrations && rng.chance(1, 60) {
                let bad = match rng.below(2) {
                    0 => format!("{}/?/{}", rng.pick(&TOPS), rng.pick(&LEAVES)),
                    _ => format!("{}/{}/#", rng.pick(&TOPS), rng.pick(&MIDS)),
                };
                let at = rng.below(kvps.len() + 1);
                kvps.insert(at, (bad, json!(format!("will{uid}-bad"))));
            }
            Op::RegLw { c, kvps: Some(kvps) }
        }
        91..=93 => {
            if g.unregister_by_delete {
                if rng.chance(1, 2) {
                    Op::UnregGg { c }
                } else {
                    Op::UnregLw { c }
                }
            } else if rng.chance(1, 2) {
                Op::RegGg { c, patterns: None }
            } else {
                Op::RegLw { c, kvps: None }
            }
        }
        94..=95 => {
            if rng.chance(1, 2) {
                Op::RegGg { c, patterns: None }
            } else {
                Op::RegLw { c, kvps: None }
            }
        }
        96..=97 if allow_import && g.imports => {
            // now and then a burst: hundreds of entries at once queue up behind the background writer
            let n = if rng.chance(1, 8) { rng.range(260, 420) } else { rng.range(1, 4) };
            if n > 4 {
                let entries = (0..n)
                    .map(|i| {
                        let version = if i % 3 == 0 { 0 } else { (i % 7 + 1) as u64 };
                        (format!("burst{}/{uid}/{i}", i % 4), Entry { value: json!(format!("imp{uid}-{i}")), version })
                    })
                    .collect();
                return Op::Import { entries };
            }
            let mut seen = BTreeSet::new();
            let mut entries = vec![];
            for i in 0..n {
                let key = gen_key(rng);
                if seen.insert(key.clone()) {
                    let version = if rng.chance(1, 2) { 0 } else { rng.range(1, 9) as u64 };
                    entries.push((
                        key,
                        Entry {
                            value: json!(format!("imp{uid}-{i}")),
                            version,
                        },
                    ));
                }
            }
            Op::Import { entries }
        }
        _ => Op::Set {
            c,
            key: if !existing.is_empty() && rng.chance(1, 2) {
                existing[rng.below(existing.len())].clone()
            } else {
                gen_key(rng)
            },
            value: gen_value(rng, uid),
        },
    }
}

/// a request that can be sent without waiting for its answer: the model alone decides whether
/// the server accepts it (all of them come from one session, so the server sees them in order)
pub fn gen_unanswered_op(rng: &mut Rng, ex: &mut Exec, c: usize) -> Op {
    let uid = ex.next_uid();
    let existing: Vec<String> = ex.m.store.map.keys().cloned().collect();
    match rng.below(10) {
        0..=3 => Op::Set {
            c,
            key: gen_key(rng),
            value: gen_value(rng, uid),
        },
        4..=6 => Op::CSet {
            c,
            key: gen_key(rng),
            value: gen_value(rng, uid),
            skew: 0,
        },
        7..=8 => Op::Delete {
            c,
            key: if !existing.is_empty() && rng.chance(4, 5) {
                existing[rng.below(existing.len())].clone()
            } else {
                gen_key(rng)
            },
        },
        _ => Op::PDelete {
            c,
            pattern: gen_pattern(rng),
        },
    }
}

fn reply_json(r: &CallResult) -> Value {
    match r {
        Err(t) => json!({"harnessTrouble": t}),
        Ok(Err(c)) => json!({"err": c}),
        Ok(Ok(Reply::Unit)) => json!("ok"),
        Ok(Ok(Reply::Versioned(v, n))) => json!({"value": v, "version": n}),
        Ok(Ok(Reply::Value(v))) => json!({"value": v}),
        Ok(Ok(Reply::Kvps(k))) => json!({"deleted": k.iter().map(|(k, _)| k.clone()).collect::<Vec<_>>()}),
        Ok(Ok(Reply::Imported(k))) => json!({"imported": k}),
    }
}

fn expect_unit_or_err<T>(what: &str, exp: &Expect<T>, got: &CallResult) -> Result<bool, String> {
    match (exp, got) {
        (_, Err(t)) => Err(format!("{what}: {t}")),
        (Expect::Ok(_), Ok(Ok(_))) => Ok(true),
        (Expect::Err(codes), Ok(Err(c))) if codes.contains(c) => Ok(false),
        (Expect::Either(_, _), Ok(Ok(_))) => Ok(true),
        (Expect::Either(_, codes), Ok(Err(c))) if codes.contains(c) => Ok(false),
        (e, g) => Err(format!(
            "{what}: the running server answered {} where the model expects {}",
            reply_json(g),
            match e {
                Expect::Ok(_) => "acceptance".to_owned(),
                Expect::Err(c) => format!("rejection with one of {c:?}"),
                Expect::Either(_, c) => format!("acceptance or one of {c:?}"),
            }
        )),
    }
}

/// Executes one request, records it, and appends the steps it implies.
pub async fn run_op<D: Driver>(d: &mut D, ex: &mut Exec, op: &Op) {
    if ex.trouble.is_some() {
        return;
    }
    let idx = ex.log.len();
    let mut answers: Vec<Value> = vec![];
    let res: Result<(), String> = async {
        match op {
            Op::Set { c, key, value } => {
                let r = d
                    .call(Call::Set {
                        slot: *c,
                        key: key.clone(),
                        value: value.clone(),
                    })
                    .await;
                answers.push(reply_json(&r));
                let mut probe = ex.m.store.clone();
                let exp = probe.set(key, value, Who::Internal);
                if expect_unit_or_err("set", &exp, &r)? {
                    ex.bump("accepted_set");
                    ex.push(Step::Put {
                        key: key.clone(),
                        value: value.clone(),
                        version: 0,
                    });
                } else {
                    ex.bump("rejected_set");
                }
            }
            Op::CSet { c, key, value, skew } => {
                let r = d.call(Call::CGet { key: key.clone() }).await;
                answers.push(reply_json(&r));
                let cur = match (&r, ex.m.store.map.get(key)) {
                    (Err(t), _) => return Err(format!("cget: {t}")),
                    (Ok(Ok(Reply::Versioned(v, n))), Some(e)) if *v == e.value && *n == e.version => *n,
                    (Ok(Err(c)), None) if *c == E_NO_SUCH_VALUE => 0,
                    (g, e) => {
                        return Err(format!(
                            "cget {key}: the running server answered {} where the model holds {e:?}",
                            reply_json(g)
                        ));
                    }
                };
                let version = (cur as i64 + skew).max(0) as u64;
                let r = d
                    .call(Call::CSet {
                        slot: *c,
                        key: key.clone(),
                        value: value.clone(),
                        version,
                    })
                    .await;
                answers.push(json!({"csetVersion": version, "answer": reply_json(&r)}));
                let mut probe = ex.m.store.clone();
                let exp = probe.cset(key, value, version, Who::Internal);
                if expect_unit_or_err("cset", &exp, &r)? {
                    ex.bump("accepted_cset");
                    let v = probe.map.get(key).map(|e| e.version).unwrap_or(0);
                    ex.push(Step::Put {
                        key: key.clone(),
                        value: value.clone(),
                        version: v,
                    });
                } else {
                    ex.bump("rejected_cset");
                }
            }
            Op::Delete { c, key } => {
                let r = d
                    .call(Call::Delete {
                        slot: *c,
                        key: key.clone(),
                    })
                    .await;
                answers.push(reply_json(&r));
                let mut probe = ex.m.store.clone();
                let exp = probe.delete(key, Who::Internal);
                if expect_unit_or_err("delete", &exp, &r)? {
                    ex.bump("accepted_delete");
                    ex.push(Step::Del { key: key.clone() });
                } else {
                    ex.bump("rejected_delete");
                }
            }
            Op::PDelete { c, pattern } => {
                let r = d
                    .call(Call::PDelete {
                        slot: *c,
                        pattern: pattern.clone(),
                    })
                    .await;
                answers.push(reply_json(&r));
                let expected: BTreeSet<String> = ex
                    .m
                    .store
                    .map
                    .keys()
                    .filter(|k| model::matches(pattern, k))
                    .cloned()
                    .collect();
                match r {
                    Err(t) => return Err(format!("pdelete: {t}")),
                    Ok(Ok(Reply::Kvps(kvps))) => {
                        let got: BTreeSet<String> = kvps.iter().map(|(k, _)| k.clone()).collect();
                        if got != expected || got.len() != kvps.len() {
                            return Err(format!(
                                "pdelete {pattern}: the running server removed {got:?} where the model expects {expected:?}"
                            ));
                        }
                        ex.bump("accepted_pdelete");
                        // one delete per removed key, in the order of the answer (the order in
                        // which the core hands them to the writer)
                        for (k, _) in kvps {
                            ex.push(Step::Del { key: k });
                        }
                    }
                    Ok(other) => {
                        return Err(format!("pdelete {pattern}: unexpected answer {}", reply_json(&Ok(other))));
                    }
                }
            }
            Op::Connect { c } => {
                let id = d.connect(*c).await?;
                answers.push(json!({"clientId": id}));
                ex.slots[*c] = Slot {
                    id: Some(id),
                    connected: true,
                };
                ex.bump("connects");
            }
            Op::Disconnect { c } => {
                let id = ex.id(*c);
                for step in session_end_steps(&ex.m, &id) {
                    ex.push(step);
                }
                d.disconnect(*c).await?;
                ex.slots[*c].connected = false;
                ex.bump("disconnects");
            }
            Op::RegGg { c, patterns } => {
                let id = ex.id(*c);
                let value = match patterns {
                    Some(p) => json!(p),
                    None => Value::Null,
                };
                let r = d
                    .call(Call::Set {
                        slot: *c,
                        key: gg_key(&id),
                        value,
                    })
                    .await;
                answers.push(reply_json(&r));
                if !expect_unit_or_err("set graveGoods", &Expect::Ok(()), &r)? {
                    unreachable!();
                }
                if patterns.as_ref().is_some_and(|p| p.iter().any(|p| !valid_gg_pattern(p))) {
                    ex.bump("invalid_grave_goods_registered");
                }
                ex.push(Step::Gg {
                    client: id,
                    reg: patterns.clone(),
                });
            }
            Op::RegLw { c, kvps } => {
                let id = ex.id(*c);
                let value = match kvps {
                    Some(k) => lw_json(k),
                    None => Value::Null,
                };
                let r = d
                    .call(Call::Set {
                        slot: *c,
                        key: lw_key(&id),
                        value,
                    })
                    .await;
                answers.push(reply_json(&r));
                if !expect_unit_or_err("set lastWill", &Expect::Ok(()), &r)? {
                    unreachable!();
                }
                if kvps.as_ref().is_some_and(|p| p.iter().any(|(k, _)| !valid_lw_key(k))) {
                    ex.bump("invalid_last_will_registered");
                }
                ex.push(Step::Lw {
                    client: id,
                    reg: kvps.clone(),
                });
            }
            Op::UnregGg { c } | Op::UnregLw { c } => {
                let id = ex.id(*c);
                let is_gg = matches!(op, Op::UnregGg { .. });
                let key = if is_gg { gg_key(&id) } else { lw_key(&id) };
                let r = d.call(Call::Delete { slot: *c, key }).await;
                answers.push(reply_json(&r));
                match r {
                    Err(t) => return Err(format!("delete registration key: {t}")),
                    Ok(Ok(_)) => {
                        ex.bump("registration_keys_deleted");
                        if is_gg {
                            if ex.m.gg.contains_key(&id) {
                                ex.bump("registrations_removed_by_delete");
                            }
                            ex.push(Step::Gg { client: id, reg: None });
                        } else {
                            if ex.m.lw.contains_key(&id) {
                                ex.bump("registrations_removed_by_delete");
                            }
                            ex.push(Step::Lw { client: id, reg: None });
                        }
                    }
                    Ok(Err(c)) if c == E_NO_SUCH_VALUE => {
                        let registered = if is_gg {
                            ex.m.gg.contains_key(&id)
                        } else {
                            ex.m.lw.contains_key(&id)
                        };
                        if registered {
                            return Err("delete of a registration key: no such value, but the model holds a registration".into());
                        }
                    }
                    Ok(Err(c)) => return Err(format!("delete of the client's own registration key rejected with code {c}")),
                }
            }
            Op::Import { entries } => {
                let r = d
                    .call(Call::Import {
                        json: model::import_json(entries),
                    })
                    .await;
                answers.push(reply_json(&r));
                let mut probe = ex.m.store.clone();
                let changes = probe.import(entries);
                let expected: BTreeMap<String, bool> =
                    changes.iter().map(|c| (c.key.clone(), c.value_changed)).collect();
                match r {
                    Err(t) => return Err(format!("import: {t}")),
                    Ok(Ok(Reply::Imported(list))) => {
                        let got: BTreeMap<String, bool> = list.iter().cloned().collect();
                        if got != expected {
                            return Err(format!(
                                "import: the running server reports {got:?} where the model expects {expected:?}"
                            ));
                        }
                        ex.bump("accepted_import");
                        for (k, changed) in list {
                            if changed && let Some((_, e)) = entries.iter().find(|(ek, _)| *ek == k) {
                                ex.push(Step::Put {
                                    key: k,
                                    value: e.value.clone(),
                                    version: e.version,
                                });
                            }
                        }
                    }
                    Ok(other) => return Err(format!("import: unexpected answer {}", reply_json(&Ok(other)))),
                }
            }
        }
        Ok(())
    }
    .await;
    ex.log.push(json!({"i": idx, "request": op.to_json(), "answers": answers}));
    if let Err(t) = res {
        ex.trouble = Some(format!("request #{idx}: {t}"));
    }
}

/// Sends a request without waiting for the answer; the model decides what it does.
pub async fn post_op<D: Driver>(d: &mut D, ex: &mut Exec, op: &Op) {
    if ex.trouble.is_some() {
        return;
    }
    let idx = ex.log.len();
    let res: Result<(), String> = async {
        match op {
            Op::Set { c, key, value } => {
                d.post(Call::Set {
                    slot: *c,
                    key: key.clone(),
                    value: value.clone(),
                })
                .await?;
                let mut probe = ex.m.store.clone();
                if matches!(probe.set(key, value, Who::Internal), Expect::Ok(_)) {
                    ex.push(Step::Put {
                        key: key.clone(),
                        value: value.clone(),
                        version: 0,
                    });
                }
            }
            Op::CSet { c, key, value, .. } => {
                let version = ex.m.store.map.get(key).map(|e| e.version).unwrap_or(0);
                d.post(Call::CSet {
                    slot: *c,
                    key: key.clone(),
                    value: value.clone(),
                    version,
                })
                .await?;
                ex.push(Step::Put {
                    key: key.clone(),
                    value: value.clone(),
                    version: version + 1,
                });
            }
            Op::Delete { c, key } => {
                d.post(Call::Delete {
                    slot: *c,
                    key: key.clone(),
                })
                .await?;
                if ex.m.store.map.contains_key(key) {
                    ex.push(Step::Del { key: key.clone() });
                }
            }
            Op::PDelete { c, pattern } => {
                d.post(Call::PDelete {
                    slot: *c,
                    pattern: pattern.clone(),
                })
                .await?;
                let mut keys: Vec<String> = ex
                    .m
                    .store
                    .map
                    .keys()
                    .filter(|k| model::matches(pattern, k))
                    .cloned()
                    .collect();
                match keys.len() {
                    0 => {}
                    1 => ex.push(Step::Del { key: keys.remove(0) }),
                    _ => ex.push(Step::DelGroup { keys }),
                }
            }
            _ => return Err("request kind cannot be sent unanswered".into()),
        }
        Ok(())
    }
    .await;
    ex.unanswered += 1;
    ex.bump("requests_sent_without_waiting");
    ex.log.push(json!({"i": idx, "request": op.to_json(), "answers": "not awaited"}));
    if let Err(t) = res {
        ex.trouble = Some(format!("request #{idx}: {t}"));
    }
}

// -------------------------------------------------------------------------------------------------
// the oracle
// -------------------------------------------------------------------------------------------------

#[derive(Clone, Copy, Debug, PartialEq, Eq)]
pub enum StopMode {
    Clean,
    Kill,
}

#[derive(Clone, Debug, PartialEq)]
enum Cmp {
    Equal,
    /// equal except that these CAS entries (model version >= 2) came back with version 1
    CasVersionReset(Vec<String>),
    Different,
}

fn compare(expected: &Snapshot, observed: &Snapshot) -> Cmp {
    if expected.len() != observed.len() {
        return Cmp::Different;
    }
    let mut reset = vec![];
    for ((ke, e), (ko, o)) in expected.iter().zip(observed.iter()) {
        if ke != ko || e.value != o.value {
            return Cmp::Different;
        }
        if e.version != o.version {
            if e.version >= 2 && o.version == 1 {
                reset.push(ke.clone());
            } else {
                return Cmp::Different;
            }
        }
    }
    if reset.is_empty() { Cmp::Equal } else { Cmp::CasVersionReset(reset) }
}

fn diff_text(expected: &Snapshot, observed: &Snapshot) -> Vec<String> {
    let mut out = vec![];
    for (k, e) in expected {
        match observed.get(k) {
            None => out.push(format!("{k}: expected {} v{}, recovered nothing", e.value, e.version)),
            Some(o) if o != e => out.push(format!(
                "{k}: expected {} v{}, recovered {} v{}",
                e.value, e.version, o.value, o.version
            )),
            _ => {}
        }
    }
    for (k, o) in observed {
        if !expected.contains_key(k) {
            out.push(format!("{k}: expected nothing, recovered {} v{}", o.value, o.version));
        }
    }
    out
}

#[derive(Clone, Debug)]
pub struct Match {
    /// number of steps of the matching prefix
    pub prefix: usize,
    /// the prefix ends inside an unordered delete group
    pub inside_group: bool,
    /// the restart function changed something at that prefix (registrations mattered)
    pub registrations_applied: bool,
    pub cas_reset: Vec<String>,
}

#[derive(Clone, Debug)]
pub enum Verdict {
    Held(Match),
    /// held only with the deviations of these open findings
    Known(Vec<&'static str>, Match),
    Violated { what: String, detail: Value },
}

/// one state the database may have been left in by the stop
struct Cand {
    /// number of steps of the prefix
    prefix: usize,
    /// the prefix ends inside an unordered delete group
    inside_group: bool,
    /// model state before the restart
    state: MState,
    /// F18-2: the same, but with the registrations whose key the client deleted still in the
    /// database (None if no such delete happened in the prefix)
    stale: Option<MState>,
    /// R(state)
    expected: Snapshot,
}

fn candidates(ex: &Exec, observed: &Snapshot, only_whole: bool, open_sessions: &[String]) -> Vec<Cand> {
    let mut list = vec![];
    let mut s = MState {
        store: model::Store { map: ex.base.clone() },
        ..Default::default()
    };
    let mut stale = s.clone();
    let mut any_stale = false;
    let n = ex.steps.len();
    for (i, step) in ex.steps.iter().enumerate() {
        if !only_whole {
            list.push(Cand {
                prefix: i,
                inside_group: false,
                expected: recovered(&s),
                state: s.clone(),
                stale: any_stale.then(|| stale.clone()),
            });
            if let Step::DelGroup { keys } = step {
                // a cut inside the group: any subset may be gone already. The only subset that
                // can match is the one made of the group's keys that did not come back.
                let gone: Vec<&String> = keys.iter().filter(|k| !observed.contains_key(*k)).collect();
                if !gone.is_empty() && gone.len() < keys.len() {
                    let mut part = s.clone();
                    let mut part_stale = stale.clone();
                    for k in gone {
                        part.store.map.remove(k);
                        part_stale.store.map.remove(k);
                    }
                    list.push(Cand {
                        prefix: i,
                        inside_group: true,
                        expected: recovered(&part),
                        state: part,
                        stale: any_stale.then_some(part_stale),
                    });
                }
            }
        }
        s.apply(step);
        match step {
            Step::Gg { reg: None, .. } | Step::Lw { reg: None, .. } if ex.unregistered_by_delete(i) => {
                any_stale = true;
            }
            _ => stale.apply(step),
        }
    }
    // A clean stop of a server with open sessions: the server may process the end of any of them
    // (in any order) before it stops; whatever is left is applied by the stop itself and by the
    // restart. (No open sessions: exactly one candidate, the whole sequence.)
    let selections = if only_whole { ordered_subsets(open_sessions) } else { vec![vec![]] };
    for sel in selections.into_iter().rev() {
        let mut t = s.clone();
        let mut t_stale = stale.clone();
        for id in &sel {
            for step in session_end_steps(&t, id) {
                t.apply(&step);
                t_stale.apply(&step);
            }
        }
        list.push(Cand {
            prefix: n,
            inside_group: false,
            expected: recovered(&t),
            state: t,
            stale: any_stale.then_some(t_stale),
        });
    }
    list
}

/// Decides one stop + restart. `flags`: which open findings may be used.
pub fn judge(ex: &Exec, observed: &Snapshot, mode: StopMode, known: &KnownFlags, open_sessions: &[String]) -> Verdict {
    let cands = candidates(ex, observed, mode == StopMode::Clean, open_sessions);
    let mk = |c: &Cand, reset: Vec<String>| Match {
        prefix: c.prefix,
        inside_group: c.inside_group,
        registrations_applied: c.expected != c.state.store.map,
        cas_reset: reset,
    };
    // 1. the stated behaviour, latest prefix first
    for c in cands.iter().rev() {
        if compare(&c.expected, observed) == Cmp::Equal {
            return Verdict::Held(mk(c, vec![]));
        }
    }
    // 2. recorded deviations, each for exactly the inputs of its signature
    if known.any() {
        for c in cands.iter().rev() {
            // what the database holds as registrations at this prefix: as stated, or (F18-2) with
            // the registrations whose key the client deleted still in it
            let mut variants: Vec<(&MState, Vec<&'static str>)> = vec![(&c.state, vec![])];
            if known.stale_registration
                && let Some(stale) = &c.stale
            {
                variants.push((stale, vec![F_STALE_REGISTRATION]));
            }
            for (state, mut used) in variants {
                // F18-3: an invalid registration in the database makes the load fail; the server
                // comes up empty
                // a clean stop applies the registrations itself first (skipping what it cannot
                // apply), so the load sees the store as it is after that
                let at_load = if mode == StopMode::Clean {
                    MState {
                        store: model::Store { map: recovered(state) },
                        gg: state.gg.clone(),
                        lw: state.lw.clone(),
                    }
                } else {
                    state.clone()
                };
                let expected = if known.invalid_registration && load_fails(&at_load) {
                    used.push(F_INVALID_REGISTRATION);
                    Snapshot::new()
                } else {
                    recovered(state)
                };
                let reset = match compare(&expected, observed) {
                    Cmp::Equal => vec![],
                    Cmp::CasVersionReset(keys) if known.cas_version => {
                        used.push(F_CAS_VERSION);
                        keys
                    }
                    _ => continue,
                };
                if !used.is_empty() {
                    return Verdict::Known(used, mk(c, reset));
                }
            }
        }
    }
    // violation: describe the nearest candidate
    let (best, d) = cands
        .iter()
        .map(|c| (c, diff_text(&c.expected, observed)))
        .min_by_key(|(c, d)| (d.len(), usize::MAX - c.prefix))
        .expect("at least one candidate");
    let what = match mode {
        StopMode::Clean => "after a clean stop the recovered state is not the state after the whole change sequence",
        StopMode::Kill => "after an abrupt stop the recovered state equals no prefix of the applied change sequence",
    };
    Verdict::Violated {
        what: what.to_owned(),
        detail: json!({
            "stop": format!("{mode:?}"),
            "steps_applied": ex.steps.len(),
            "nearest_prefix": best.prefix,
            "nearest_prefix_inside_delete_group": best.inside_group,
            "difference_to_nearest_prefix": d,
            "registrations_at_nearest_prefix": {"graveGoods": best.state.gg, "lastWill": best.state.lw.iter().map(|(c, l)| (c.clone(), lw_json(l))).collect::<BTreeMap<_, _>>()},
            "recovered": snapshot_json(observed),
            "expected_at_nearest_prefix": snapshot_json(&best.expected),
        }),
    }
}

impl Exec {
    pub fn registered_invalid(&self) -> bool {
        self.counts.get("invalid_grave_goods_registered").copied().unwrap_or(0) > 0
            || self.counts.get("invalid_last_will_registered").copied().unwrap_or(0) > 0
    }

    /// was step `i` produced by a client's delete of its registration key?
    fn unregistered_by_delete(&self, i: usize) -> bool {
        self.log
            .get(self.step_req[i])
            .and_then(|l| l.get("request"))
            .is_some_and(|r| r.get("deleteGraveGoodsKey").is_some() || r.get("deleteLastWillKey").is_some())
    }
}

#[derive(Clone, Copy, Debug, Default)]
pub struct KnownFlags {
    pub cas_version: bool,
    pub stale_registration: bool,
    pub invalid_registration: bool,
}

impl KnownFlags {
    pub fn any(&self) -> bool {
        self.cas_version || self.stale_registration || self.invalid_registration
    }

    pub fn from(findings: &Findings) -> KnownFlags {
        KnownFlags {
            cas_version: findings.open(F_CAS_VERSION, PROPERTY),
            stale_registration: findings.open(F_STALE_REGISTRATION, PROPERTY),
            invalid_registration: findings.open(F_INVALID_REGISTRATION, PROPERTY),
        }
    }
}

/// a history is non-trivial if the steps before the stop contain a CAS write, a delete and a
/// registration
fn nontrivial(ex: &Exec) -> bool {
    let cas = ex.steps.iter().any(|s| matches!(s, Step::Put { version, .. } if *version > 0));
    let del = ex.steps.iter().any(|s| matches!(s, Step::Del { .. } | Step::DelGroup { .. }));
    let reg = ex
        .steps
        .iter()
        .any(|s| matches!(s, Step::Gg { reg: Some(_), .. } | Step::Lw { reg: Some(_), .. }));
    ex.steps.len() >= 5 && ((cas && del) || (cas && reg) || (del && reg))
}

fn lag_bucket(lag: usize) -> &'static str {
    match lag {
        0 => "lag_0",
        1..=2 => "lag_1_2",
        3..=5 => "lag_3_5",
        6..=10 => "lag_6_10",
        11..=20 => "lag_11_20",
        21..=50 => "lag_21_50",
        51..=100 => "lag_51_100",
        _ => "lag_over_100",
    }
}

/// Books one judged stop + restart into the evidence. Returns false on a violation.
pub fn record(
    ev: &mut Evidence,
    ctx: &Ctx,
    ex: &Exec,
    observed: &Snapshot,
    mode: StopMode,
    variant: &str,
    scenario: &Value,
    open_sessions: &[String],
) -> bool {
    let verdict = judge(ex, observed, mode, &KnownFlags::from(&ctx.findings), open_sessions);
    let steps_json: Vec<Value> = ex.steps.iter().map(Step::to_json).collect();
    let h = hash_str(&format!("{mode:?}|{variant}|{}", Value::Array(steps_json.clone())));
    ev.eval(nontrivial(ex).then_some(h));
    ev.count("requests", ex.log.len() as u64);
    ev.count("steps_applied_before_stop", ex.steps.len() as u64);
    for (k, v) in &ex.counts {
        ev.count(k, *v);
    }
    ev.count(
        match mode {
            StopMode::Clean => "stops_clean",
            StopMode::Kill => "stops_abrupt",
        },
        1,
    );
    ev.count(&format!("stops_{variant}"), 1);
    let m = match &verdict {
        Verdict::Held(m) => Some(m),
        Verdict::Known(ids, m) => {
            for id in ids {
                ev.known(&ctx.findings, id);
                ev.count(&format!("restarts_matching_only_with_{id}"), 1);
            }
            Some(m)
        }
        Verdict::Violated { .. } => None,
    };
    if let Some(m) = m {
        if !m.cas_reset.is_empty() {
            ev.count("cas_entries_recovered_with_version_1", m.cas_reset.len() as u64);
        }
        if mode == StopMode::Kill {
            ev.count(&format!("abrupt_{}", lag_bucket(ex.steps.len() - m.prefix)), 1);
            if m.inside_group {
                ev.count("abrupt_prefix_ends_inside_delete_group", 1);
            }
            if m.prefix == 0 && !ex.steps.is_empty() {
                ev.count("abrupt_nothing_of_this_run_recovered", 1);
            }
            if m.prefix > 0 && m.prefix < ex.steps.len() {
                ev.count("abrupt_proper_prefix_recovered", 1);
            }
        }
        if m.registrations_applied {
            ev.count("restarts_that_applied_registrations", 1);
        }
        if ev.wants_sample() && nontrivial(ex) && (mode == StopMode::Clean || m.prefix < ex.steps.len()) {
            let tail = ex.steps.len().saturating_sub(12);
            ev.sample(json!({
                "variant": variant,
                "stop": format!("{mode:?}"),
                "requests": ex.log.len(),
                "steps": ex.steps.len(),
                "matched_prefix": m.prefix,
                "registrations_applied_by_restart": m.registrations_applied,
                "last_steps": steps_json[tail..].to_vec(),
                "recovered_keys": observed.len(),
            }));
        }
        return true;
    }
    if let Verdict::Violated { what, detail } = verdict {
        let class = detail
            .get("difference_to_nearest_prefix")
            .and_then(Value::as_array)
            .and_then(|a| a.first())
            .and_then(Value::as_str)
            .map(diff_class)
            .unwrap_or_default();
        let directed = variant.find("directed_").map(|i| format!(" ({})", &variant[i..])).unwrap_or_default();
        ev.violation(
            format!("{what} [{class}]{directed}"),
            json!({
                "variant": variant,
                "scenario": scenario,
                "requests_with_answers": ex.log,
                "durable_state_at_step_0": snapshot_json(&ex.base),
                "steps": steps_json,
                "oracle": detail,
            }),
        );
    }
    false
}

/// class of a difference (for de-duplicating witnesses): the text without keys and values
fn diff_class(d: &str) -> String {
    let kind = if d.contains("recovered nothing") {
        "key missing"
    } else if d.contains("expected nothing") {
        "extra key"
    } else {
        let ev = d.split(" v").nth(1).and_then(|s| s.split(',').next()).unwrap_or("");
        let ov = d.rsplit(" v").next().unwrap_or("");
        if ev != ov { "kind or version differs" } else { "value differs" }
    };
    kind.to_owned()
}

// -------------------------------------------------------------------------------------------------
// in-process (Api) driver
// -------------------------------------------------------------------------------------------------

pub struct ApiDriver {
    pub api: CloneableWbApi,
    ids: Vec<Option<Uuid>>,
    rng: Rng,
    pending: Vec<tokio::task::JoinHandle<()>>,
}

impl ApiDriver {
    pub fn new(api: CloneableWbApi, slots: usize, rng: Rng) -> ApiDriver {
        ApiDriver {
            api,
            ids: vec![None; slots],
            rng,
            pending: vec![],
        }
    }

    fn id(&self, slot: usize) -> Result<Uuid, String> {
        self.ids[slot].ok_or_else(|| format!("slot {slot} has no session"))
    }
}

async fn guarded<T>(what: &str, f: impl Future<Output = T>) -> Result<T, String> {
    tokio::time::timeout(CALL_TIMEOUT, f)
        .await
        .map_err(|_| format!("{what}: no answer within {CALL_TIMEOUT:?}"))
}

async fn api_call(api: &CloneableWbApi, ids: &[Option<Uuid>], call: Call) -> CallResult {
    let id = |slot: usize| ids[slot].ok_or_else(|| format!("slot {slot} has no session"));
    Ok(match call {
        Call::Set { slot, key, value } => guarded("set", api.set(key, value, id(slot)?))
            .await?
            .map(|_| Reply::Unit)
            .map_err(|e| code(&e)),
        Call::CGet { key } => guarded("cget", api.cget(key))
            .await?
            .map(|(v, n)| Reply::Versioned(v, n))
            .map_err(|e| code(&e)),
        Call::CSet {
            slot,
            key,
            value,
            version,
        } => guarded("cset", api.cset(key, value, version, id(slot)?))
            .await?
            .map(|_| Reply::Unit)
            .map_err(|e| code(&e)),
        Call::Delete { slot, key } => guarded("delete", api.delete(key, id(slot)?))
            .await?
            .map(Reply::Value)
            .map_err(|e| code(&e)),
        Call::PDelete { slot, pattern } => guarded("pdelete", api.pdelete(pattern, id(slot)?))
            .await?
            .map(|kvps| Reply::Kvps(kvps.into_iter().map(|k| (k.key, k.value)).collect()))
            .map_err(|e| code(&e)),
        Call::Import { json } => guarded("import", api.import(json))
            .await?
            .map(|l| Reply::Imported(l.into_iter().map(|(k, (_, changed))| (k, changed)).collect()))
            .map_err(|e| code(&e)),
    })
}

pub async fn api_read_back(api: &CloneableWbApi) -> Result<(Snapshot, usize, usize), String> {
    // the server's own bookkeeping under $SYS changes by itself (statistics task): the entry count
    // is compared with the number of keys only if it was the same before and after the `pget #`
    let mut attempt = 0;
    let (all, len_before) = loop {
        let before = guarded("len", api.entries())
            .await?
            .map_err(|e| format!("len failed: {e}"))?;
        let all = guarded("pget #", api.pget("#".to_owned()))
            .await?
            .map_err(|e| format!("pget # failed: {e}"))?;
        let after = guarded("len", api.entries())
            .await?
            .map_err(|e| format!("len failed: {e}"))?;
        attempt += 1;
        if before == after {
            break (all, before);
        }
        if attempt >= 20 {
            break (all, usize::MAX);
        }
    };
    let n_all = all.len();
    let mut snap = Snapshot::new();
    for kvp in all {
        if is_sys(&kvp.key) {
            continue;
        }
        let (value, version) = guarded("cget", api.cget(kvp.key.clone()))
            .await?
            .map_err(|e| format!("cget {} failed: {e}", kvp.key))?;
        if value != kvp.value {
            return Err(format!("cget and pget disagree about {}", kvp.key));
        }
        if snap.insert(kvp.key.clone(), Entry { value, version }).is_some() {
            return Err(format!("pget # returned {} twice", kvp.key));
        }
    }
    Ok((snap, len_before, n_all))
}

impl Driver for ApiDriver {
    async fn call(&mut self, call: Call) -> CallResult {
        api_call(&self.api, &self.ids, call).await
    }

    async fn post(&mut self, call: Call) -> Result<(), String> {
        let api = self.api.clone();
        let ids = self.ids.clone();
        // tasks of the (current-thread) harness runtime are polled in spawn order, so the requests
        // enter the server's queue in this order
        self.pending.push(tokio::spawn(async move {
            api_call(&api, &ids, call).await.ok();
        }));
        Ok(())
    }

    async fn connect(&mut self, slot: usize) -> Result<String, String> {
        let id = Uuid::from_u128(((self.rng.next() as u128) << 64) | self.rng.next() as u128);
        guarded("connected", self.api.connected(id, None, Protocol::TCP))
            .await?
            .map_err(|e| format!("connected failed: {e}"))?;
        self.ids[slot] = Some(id);
        Ok(id.to_string())
    }

    async fn disconnect(&mut self, slot: usize) -> Result<(), String> {
        let id = self.id(slot)?;
        guarded("disconnected", self.api.disconnected(id, None))
            .await?
            .map_err(|e| format!("disconnected failed: {e}"))?;
        // `disconnected` is not answered: a request behind it in the core's queue is the barrier
        guarded("len", self.api.entries())
            .await?
            .map_err(|e| format!("barrier after disconnect failed: {e}"))?;
        self.ids[slot] = None;
        Ok(())
    }

    fn supports_import(&self) -> bool {
        true
    }

    async fn read_back(&mut self) -> Result<(Snapshot, usize, usize), String> {
        api_read_back(&self.api).await
    }
}

// -------------------------------------------------------------------------------------------------
// in-process scenarios
// -------------------------------------------------------------------------------------------------

pub fn redb_config(dir: &Path) -> worterbuch::Config {
    let mut config = server_config(dir, false);
    config.use_persistence = true;
    config.persistence_mode = worterbuch::PersistenceMode::ReDB;
    // a clean stop that takes longer than this is cut short by the subsystem root ("forced
    // shutdown"); that would be a statement about the machine's load, not about persistence
    config.shutdown_timeout = Duration::from_secs(120);
    config
}

pub fn db_file(dir: &Path) -> PathBuf {
    dir.join("data").join("worterbuch.re.db")
}

/// waits until no open database holds the file's lock any more (redb takes an exclusive `flock`;
/// the writer task of a killed server releases it when it is dropped)
pub fn wait_db_released(dir: &Path, watchdog: Duration) -> Result<u64, String> {
    let path = db_file(dir);
    let started = Instant::now();
    let mut polls = 0;
    loop {
        match std::fs::File::open(&path) {
            Err(e) if e.kind() == std::io::ErrorKind::NotFound => return Ok(polls),
            Err(e) => return Err(format!("cannot open {}: {e}", path.display())),
            Ok(f) => match f.try_lock() {
                Ok(()) => {
                    f.unlock().ok();
                    return Ok(polls);
                }
                Err(std::fs::TryLockError::WouldBlock) => {}
                Err(std::fs::TryLockError::Error(e)) => return Err(format!("flock: {e}")),
            },
        }
        polls += 1;
        if started.elapsed() > watchdog {
            return Err(format!("database file still locked after {watchdog:?}"));
        }
        std::thread::sleep(Duration::from_millis(1));
    }
}

#[derive(Clone, Debug)]
pub struct PhasePlan {
    /// number of answered requests
    pub requests: usize,
    pub stop: StopMode,
    /// requests sent without waiting right before an abrupt stop
    pub unanswered: usize,
    /// scheduler turns / microseconds granted between the last request and the abrupt stop
    pub yields: usize,
    pub delay_us: u64,
    /// restart twice and compare
    pub second_restart: bool,
    /// a fixed request list instead of `requests` generated ones
    pub script: Option<Vec<Op>>,
}

pub const SLOTS: usize = 4;

/// Runs the phases of one chain on one data directory. Every phase = history + stop + restart +
/// verdict; the state recovered by a restart is step 0 of the next phase.
fn run_chain(ctx: &Ctx, ev: &mut Evidence, dir: &Path, seed: u64, phases: &[PhasePlan], g: &Gen, variant: &str) {
    let rt = match tokio::runtime::Builder::new_current_thread().enable_all().build() {
        Ok(rt) => rt,
        Err(e) => {
            ev.inconclusive += 1;
            ev.count(&format!("trouble: runtime: {e}"), 1);
            return;
        }
    };
    let mut rng = Rng::new(seed);
    let mut server = match Server::start(redb_config(dir), 2) {
        Ok(s) => s,
        Err(e) => {
            ev.inconclusive += 1;
            note_trouble(ev, &format!("first start failed: {e}"));
            return;
        }
    };
    let mut base = Snapshot::new();
    let mut uid = (seed % 1000) * 1_000_000;
    for (pi, plan) in phases.iter().enumerate() {
        let mut ex = Exec::new(base.clone(), uid, SLOTS);
        let mut d = ApiDriver::new(server.api.clone(), SLOTS, rng.fork(pi as u64 + 100));
        let scenario = json!({"seed": seed, "phase": pi, "plan": format!("{plan:?}"), "workload": format!("{g:?}")});
        let live = rt.block_on(async {
            let n = plan.script.as_ref().map(Vec::len).unwrap_or(plan.requests);
            for i in 0..n {
                let op = match &plan.script {
                    Some(script) => script[i].clone(),
                    None => gen_op(&mut rng, &mut ex, g, d.supports_import()),
                };
                run_op(&mut d, &mut ex, &op).await;
                if ex.trouble.is_some() {
                    return None;
                }
            }
            if plan.stop == StopMode::Clean {
                // what the server holds right before the clean stop must be the model state, or
                // the step sequence is not what it applied
                return Some(d.read_back().await);
            }
            if plan.unanswered > 0 {
                let conn = ex.connected();
                if let Some(c) = conn.first().copied() {
                    for _ in 0..plan.unanswered {
                        let op = gen_unanswered_op(&mut rng, &mut ex, c);
                        post_op(&mut d, &mut ex, &op).await;
                    }
                }
            }
            for _ in 0..plan.yields {
                tokio::task::yield_now().await;
            }
            if plan.delay_us > 0 {
                tokio::time::sleep(Duration::from_micros(plan.delay_us)).await;
            }
            None
        });
        uid = ex.uid;
        if let Some(t) = &ex.trouble {
            ev.inconclusive += 1;
            note_trouble(ev, t);
            server.kill();
            return;
        }
        if let Some(live) = live {
            match live {
                Err(t) => {
                    ev.inconclusive += 1;
                    note_trouble(ev, &t);
                    server.kill();
                    return;
                }
                Ok((snap, _, _)) => {
                    if snap != ex.m.store.map {
                        ev.inconclusive += 1;
                        note_trouble(
                            ev,
                            &format!(
                                "the running server's state differs from the model before the stop: {:?}",
                                diff_text(&ex.m.store.map, &snap).first()
                            ),
                        );
                        server.kill();
                        return;
                    }
                    ev.count("live_read_backs_equal_to_model", 1);
                }
            }
        }
        // ---- stop
        drop(d);
        match plan.stop {
            StopMode::Clean => match server.stop(Duration::from_secs(180)) {
                Ok(true) => {}
                other => {
                    ev.inconclusive += 1;
                    note_trouble(ev, &format!("clean stop did not complete: {other:?}"));
                    return;
                }
            },
            StopMode::Kill => server.kill(),
        }
        match wait_db_released(dir, Duration::from_secs(60)) {
            Ok(polls) => ev.count("polls_waiting_for_database_release", polls),
            Err(t) => {
                ev.inconclusive += 1;
                note_trouble(ev, &t);
                return;
            }
        }
        // ---- restart and read back
        server = match Server::start(redb_config(dir), 2) {
            Ok(s) => s,
            Err(e) => {
                ev.inconclusive += 1;
                note_trouble(ev, &format!("restart failed: {e}"));
                return;
            }
        };
        let api = server.api.clone();
        let observed = match rt.block_on(api_read_back(&api)) {
            Ok((snap, len, n_all)) => {
                if len != usize::MAX && len != n_all {
                    ev.violation(
                        "after a restart the entry count differs from the number of keys",
                        json!({"scenario": scenario, "len": len, "keys_of_pget_#": n_all, "requests_with_answers": ex.log}),
                    );
                }
                snap
            }
            Err(t) => {
                ev.inconclusive += 1;
                note_trouble(ev, &format!("read-back after restart: {t}"));
                server.kill();
                return;
            }
        };
        ev.count("keys_read_back_after_restart", observed.len() as u64);
        let variant_name = if plan.unanswered > 0 && plan.stop == StopMode::Kill {
            format!("{variant}_abrupt_with_requests_in_flight")
        } else {
            format!("{variant}_{}", if plan.stop == StopMode::Clean { "clean" } else { "abrupt" })
        };
        if !record(ev, ctx, &ex, &observed, plan.stop, &variant_name, &scenario, &[]) {
            server.kill();
            return;
        }
        // ---- the restart's own writes (burial, last wills, dropped registrations) must be durable
        if plan.second_restart {
            drop(api);
            match server.stop(Duration::from_secs(60)) {
                Ok(true) => {}
                other => {
                    ev.inconclusive += 1;
                    note_trouble(ev, &format!("clean stop of the restarted server did not complete: {other:?}"));
                    return;
                }
            }
            if let Err(t) = wait_db_released(dir, Duration::from_secs(60)) {
                ev.inconclusive += 1;
                note_trouble(ev, &t);
                return;
            }
            server = match Server::start(redb_config(dir), 2) {
                Ok(s) => s,
                Err(e) => {
                    ev.inconclusive += 1;
                    note_trouble(ev, &format!("second restart failed: {e}"));
                    return;
                }
            };
            let api = server.api.clone();
            match rt.block_on(api_read_back(&api)) {
                Ok((again, _, _)) => {
                    ev.count("second_restarts_compared", 1);
                    if again != observed {
                        ev.violation(
                            "a second restart (no request in between) recovers a different state than the first",
                            json!({"scenario": scenario, "requests_with_answers": ex.log,
                                "steps": ex.steps.iter().map(Step::to_json).collect::<Vec<_>>(),
                                "first_restart": snapshot_json(&observed), "second_restart": snapshot_json(&again),
                                "difference": diff_text(&observed, &again)}),
                        );
                        server.kill();
                        return;
                    }
                }
                Err(t) => {
                    ev.inconclusive += 1;
                    note_trouble(ev, &format!("read-back after second restart: {t}"));
                    server.kill();
                    return;
                }
            }
        }
        if ex.registered_invalid() && ctx.findings.open(F_INVALID_REGISTRATION, PROPERTY) {
            // recorded finding: the database may keep failing to load from here on
            ev.count("chains_ended_after_an_invalid_registration", 1);
            break;
        }
        base = observed;
    }
    match server.stop(Duration::from_secs(60)) {
        Ok(true) => {}
        _ => ev.count("final_stop_not_clean", 1),
    }
    wait_db_released(dir, Duration::from_secs(60)).ok();
}

static TROUBLE: Mutex<Vec<String>> = Mutex::new(Vec::new());

pub fn note_trouble(ev: &mut Evidence, text: &str) {
    ev.count("scenarios_not_judged", 1);
    if let Ok(mut t) = TROUBLE.lock()
        && t.len() < 10
    {
        t.push(text.chars().take(600).collect());
    }
}

fn plan_random(rng: &mut Rng, long: bool) -> Vec<PhasePlan> {
    // histories of 50-400 requests, cut into 2-5 phases
    let total = if long { rng.range(150, 400) } else { rng.range(50, 150) };
    let n = rng.range(2, 5);
    let mut left = total;
    let mut out = vec![];
    for i in 0..n {
        let requests = if i + 1 == n { left } else { rng.range(left / (n - i) / 2, left / (n - i) * 3 / 2).min(left) };
        left -= requests;
        let stop = if rng.chance(3, 10) { StopMode::Clean } else { StopMode::Kill };
        out.push(PhasePlan {
            requests: requests.max(1),
            stop,
            unanswered: if stop == StopMode::Kill && rng.chance(1, 2) { rng.range(1, 12) } else { 0 },
            yields: *rng.pick(&[0, 0, 1, 2, 5, 20]),
            delay_us: *rng.pick(&[0, 0, 0, 50, 200, 1000, 5000]),
            second_restart: rng.chance(1, 5),
            script: None,
        });
    }
    out
}

/// short fixed histories, one per question about the persistence code (run with a clean and an
/// abrupt stop each)
fn directed() -> Vec<(&'static str, Vec<Op>)> {
    let k = |s: &str| s.to_owned();
    let set = |c: usize, key: &str, v: &str| Op::Set {
        c,
        key: key.to_owned(),
        value: json!(v),
    };
    let cset = |c: usize, key: &str, v: &str, skew: i64| Op::CSet {
        c,
        key: key.to_owned(),
        value: json!(v),
        skew,
    };
    let gg = |c: usize, p: &[&str]| Op::RegGg {
        c,
        patterns: Some(p.iter().map(|s| (*s).to_owned()).collect()),
    };
    let lw = |c: usize, kv: &[(&str, &str)]| Op::RegLw {
        c,
        kvps: Some(kv.iter().map(|(k, v)| ((*k).to_owned(), json!(v))).collect()),
    };
    vec![
        (
            "cset_chain",
            vec![
                Op::Connect { c: 0 },
                cset(0, "p/m/0", "a1", 0),
                cset(0, "p/m/0", "a2", 0),
                cset(0, "p/m/0", "a3", 0),
                cset(0, "p/m/0", "a4", 0),
                cset(0, "p/m/0", "a5", 0),
                cset(0, "q/m/0", "b1", 0),
            ],
        ),
        (
            "rejected_writes_are_not_persisted",
            vec![
                Op::Connect { c: 0 },
                cset(0, "p/m/0", "a1", 0),
                set(0, "p/m/0", "rejected-plain"),
                cset(0, "p/m/0", "rejected-version", 1),
                cset(0, "p/m/1", "rejected-absent", 1),
                set(0, "p/m/2", "plain"),
                cset(0, "p/m/2", "rejected-over-plain", 1),
                Op::Delete { c: 0, key: k("p/m/3") },
            ],
        ),
        (
            "registrations_of_ended_sessions_are_not_applied",
            vec![
                Op::Connect { c: 0 },
                gg(0, &["p/#"]),
                lw(0, &[("q/m/1", "will")]),
                set(0, "p/m/0", "a"),
                Op::Disconnect { c: 0 },
                Op::Connect { c: 1 },
                set(1, "p/m/0", "b"),
                set(1, "q/m/1", "c"),
            ],
        ),
        (
            "re_registration_replaces",
            vec![
                Op::Connect { c: 0 },
                gg(0, &["p/#"]),
                gg(0, &["q/#"]),
                lw(0, &[("r/m/0", "w0")]),
                lw(0, &[("r/m/1", "w1")]),
                set(0, "p/m/0", "stays"),
                set(0, "q/m/0", "goes"),
            ],
        ),
        (
            "registration_cleared_with_null",
            vec![
                Op::Connect { c: 0 },
                gg(0, &["p/#"]),
                lw(0, &[("r/m/0", "w0")]),
                set(0, "p/m/0", "stays"),
                Op::RegGg { c: 0, patterns: None },
                Op::RegLw { c: 0, kvps: None },
            ],
        ),
        (
            "registration_key_deleted",
            vec![
                Op::Connect { c: 0 },
                gg(0, &["p/#"]),
                lw(0, &[("r/m/0", "w0")]),
                set(0, "p/m/0", "stays"),
                Op::UnregGg { c: 0 },
                Op::UnregLw { c: 0 },
            ],
        ),
        (
            "invalid_last_will_key",
            vec![
                Op::Connect { c: 0 },
                set(0, "q/m/0", "stays"),
                lw(0, &[("r/m/0", "w0"), ("p/?/1", "never")]),
            ],
        ),
        (
            "invalid_grave_goods_pattern",
            vec![
                Op::Connect { c: 0 },
                set(0, "q/m/0", "stays"),
                set(0, "p/m/0", "stays too"),
                gg(0, &["p/#/1"]),
            ],
        ),
        (
            "last_will_over_cas_value_and_burial_before_wills",
            vec![
                Op::Connect { c: 0 },
                Op::Connect { c: 1 },
                cset(0, "p/m/0", "a1", 0),
                cset(0, "p/m/0", "a2", 0),
                lw(1, &[("p/m/0", "will-over-cas"), ("q/n/1", "will-inside-grave-goods")]),
                gg(0, &["q/#"]),
                set(0, "q/m/0", "goes"),
            ],
        ),
        (
            "two_last_wills_for_one_key",
            vec![
                Op::Connect { c: 0 },
                Op::Connect { c: 1 },
                Op::Connect { c: 2 },
                lw(0, &[("r/n/0", "will-0")]),
                lw(1, &[("r/n/0", "will-1")]),
                lw(2, &[("r/n/0", "will-2")]),
            ],
        ),
        (
            "import_of_cas_entries",
            vec![
                Op::Connect { c: 0 },
                Op::Import {
                    entries: vec![
                        (
                            k("p/n/0"),
                            Entry {
                                value: json!("imp-cas-7"),
                                version: 7,
                            },
                        ),
                        (
                            k("p/n/1"),
                            Entry {
                                value: json!("imp-plain"),
                                version: 0,
                            },
                        ),
                    ],
                },
                cset(0, "p/n/0", "a8", 0),
            ],
        ),
        (
            "pdelete_and_delete_after_update",
            vec![
                Op::Connect { c: 0 },
                set(0, "p/m/0", "a"),
                set(0, "p/m/1", "b"),
                set(0, "p/n/0", "c"),
                Op::PDelete { c: 0, pattern: k("p/m/#") },
                set(0, "p/m/0", "again"),
                Op::Delete { c: 0, key: k("p/m/0") },
                set(0, "p/m/1", "again"),
            ],
        ),
    ]
}

pub fn run(ctx: &Ctx) -> Evidence {
    let mut ev = ctx.evidence(PROPERTY, "fault_enumeration");
    ev.rule = "one evaluation = one history driven against the real server with ReDB persistence, one stop (clean or abrupt) at a chosen request index, one restart on the same data directory and a complete read-back (every key outside $SYS with value, plain/CAS kind and CAS version) compared with the reference-model states of all prefixes of the applied step sequence (grave goods and last wills registered at that prefix applied). Non-trivial: at least 5 steps before the stop, with at least two of {CAS write, delete, registration} among them; distinct = distinct (step sequence, stop mode, variant).".to_owned();
    ev.max_samples = 5;
    let base_rng = Rng::new(ctx.seed ^ 0xC18);
    // batch boundaries of the writer task and the core's pace vary with the perturbation hook
    worterbuch::verif::set_perturbation(mix(ctx.seed ^ 0x18_18) | 1);
    let root = ctx.scratch("c18");
    let full = Gen {
        invalid_registrations: true,
        unregister_by_delete: true,
        imports: true,
    };

    // ---- A: short histories, an abrupt stop (and a clean stop) at every request index
    let n_short = ctx.tier.pick(2, 24);
    let short_len = ctx.tier.pick(16, 24);
    let mut jobs: Vec<(String, u64, Vec<PhasePlan>)> = vec![];
    for h in 0..n_short {
        let seed = base_rng.fork(1000 + h as u64).0;
        for cut in 0..=short_len {
            for (stop, every) in [(StopMode::Kill, 1), (StopMode::Clean, ctx.tier.pick(4, 2))] {
                if cut % every != 0 {
                    continue;
                }
                jobs.push((
                    "every_index".to_owned(),
                    seed,
                    vec![PhasePlan {
                        requests: cut,
                        stop,
                        unanswered: 0,
                        yields: 0,
                        delay_us: 0,
                        second_restart: false,
                        script: None,
                    }],
                ));
            }
        }
    }
    // ---- D: directed histories
    for (name, script) in directed() {
        for stop in [StopMode::Clean, StopMode::Kill] {
            jobs.push((
                format!("directed_{name}"),
                base_rng.fork(hash_str(name)).0,
                vec![PhasePlan {
                    requests: script.len(),
                    stop,
                    unanswered: 0,
                    yields: 0,
                    delay_us: 20_000,
                    second_restart: stop == StopMode::Clean,
                    script: Some(script.clone()),
                }],
            ));
        }
    }
    // ---- B: random long histories with several stops each
    let target_cuts = ctx.tier.pick(300, 9000);
    let mut cuts = 0;
    let mut i = 0u64;
    let mut prng = base_rng.fork(7);
    while cuts < target_cuts {
        let plan = plan_random(&mut prng, i % 3 == 0);
        cuts += plan.len();
        jobs.push(("random".to_owned(), base_rng.fork(5000 + i).0, plan));
        i += 1;
    }
    let parts = std::env::var("VERIF_C18_PARTS").unwrap_or_default();
    if parts == "process" {
        jobs.clear();
    }
    let n_jobs = jobs.len();
    par_shards(&mut ev, n_jobs, |j, ev| {
        let (variant, seed, plan) = &jobs[j];
        let dir = root.join(format!("chain-{j}"));
        std::fs::create_dir_all(&dir).ok();
        run_chain(ctx, ev, &dir, *seed, plan, &full, &format!("inprocess_{variant}"));
        std::fs::remove_dir_all(&dir).ok();
    });

    // ---- C: the real server binary as a child process, SIGKILLed at random instants
    // (VERIF_C18_PARTS=inprocess|process restricts a development run to one part)
    if parts != "inprocess" {
        c18_proc::run(ctx, &mut ev, &root, &base_rng.fork(9));
    }

    worterbuch::verif::set_perturbation(0);
    let hits = worterbuch::verif::perturbation_hits();
    ev.extra.insert(
        "perturbation_hits".into(),
        json!(hits.iter().map(|(k, v)| ((*k).to_owned(), *v)).collect::<BTreeMap<String, u64>>()),
    );
    ev.extra.insert("invariant_hook_evaluations".into(), json!(worterbuch::verif::invariant_evaluations()));
    let failures = worterbuch::verif::take_invariant_failures();
    if !failures.is_empty() {
        ev.extra.insert("invariant_failures_seen".into(), json!(failures.iter().take(5).collect::<Vec<_>>()));
    }
    if let Ok(t) = TROUBLE.lock()
        && !t.is_empty()
    {
        ev.extra.insert("why_scenarios_were_not_judged".into(), json!(*t));
    }
    ev.assumptions = vec![
        "an abrupt in-process stop (runtime dropped at the tasks' next suspension points) cuts the writer task only between transactions; torn transactions are produced by the SIGKILL variant (real binary) and are redb's to repair".into(),
        "the order of the deletes inside one burial (one grave goods pattern) is not observable; the oracle accepts any subset of them at a cut inside the group".into(),
        "keys of the workload never are a prefix of another key, so the recorded deviation F03 (`P/#` also matches `P`) plays no role".into(),
    ];
    ev
}
