//! C20 helpers shared by the four monitors: per-scenario report, classification of client-library
//! results, watchdog wrapper, open findings.

use crate::{Ctx, evidence::Evidence, findings::Findings};
use serde_json::Value;
use std::{collections::BTreeMap, fmt::Debug, future::Future, time::Duration};
use worterbuch_client::{ConnectionError, ConnectionResult};

/// generous watchdog for one awaited library call; expiry = inconclusive, never a verdict
pub const WATCHDOG: Duration = Duration::from_secs(30);

pub const F_UNSUB_LS_ASYNC: &str = "FC20-1";
pub const F_PUBLISH_LATER: &str = "FC20-2";
pub const F_SPUB_CONCURRENT: &str = "FC20-3";
pub const F_LOCAL_PDELETE: &str = "FC20-4";

/// set once a scenario of monitor 1 or 2 has established a violation: the scenarios that have not
/// started yet are skipped (a lost answer costs a full watchdog per call, and one witness is enough)
pub static STOP: std::sync::atomic::AtomicBool = std::sync::atomic::AtomicBool::new(false);

pub fn stop_requested() -> bool {
    STOP.load(std::sync::atomic::Ordering::Relaxed)
}

/// which of the recorded C20 findings are open (their exact deviation is then accepted for exactly
/// the inputs of their signature and reported as KNOWN-FINDING)
#[derive(Clone, Copy, Debug, Default)]
pub struct Open {
    pub unsub_ls_async: bool,
    pub publish_later: bool,
    pub spub_concurrent: bool,
    pub local_pdelete: bool,
}

impl Open {
    pub fn from_ctx(ctx: &Ctx) -> Open {
        Open {
            unsub_ls_async: ctx.findings.open(F_UNSUB_LS_ASYNC, "C20"),
            publish_later: ctx.findings.open(F_PUBLISH_LATER, "C20"),
            spub_concurrent: ctx.findings.open(F_SPUB_CONCURRENT, "C20"),
            local_pdelete: ctx.findings.open(F_LOCAL_PDELETE, "C20"),
        }
    }
}

/// what one scenario (one run against a fake or real server) found
#[derive(Debug, Default)]
pub struct Report {
    pub violations: Vec<(String, Value)>,
    /// ids of open findings whose recorded deviation was observed
    pub known: Vec<&'static str>,
    pub inconclusive: Vec<String>,
    pub counters: BTreeMap<String, u64>,
    pub sample: Option<Value>,
    /// Some(hash of the scenario) if it was non-trivial by the monitor's rule
    pub nontrivial: Option<u64>,
    /// the scenario was not run (a violation had been established already)
    pub skipped: bool,
}

impl Report {
    pub fn violation(&mut self, signature: impl Into<String>, detail: Value) {
        if self.violations.len() < 8 {
            self.violations.push((signature.into(), detail));
        }
    }
    pub fn count(&mut self, name: &str, n: u64) {
        *self.counters.entry(name.to_owned()).or_default() += n;
    }
    pub fn known(&mut self, id: &'static str) {
        self.known.push(id);
    }
    pub fn inconclusive(&mut self, why: impl Into<String>) {
        self.inconclusive.push(why.into());
    }
    pub fn is_inconclusive(&self) -> bool {
        !self.inconclusive.is_empty() && self.violations.is_empty()
    }

    /// folds the scenario into the evidence; returns true if the scenario was inconclusive
    pub fn apply(self, ev: &mut Evidence, findings: &Findings) -> bool {
        if self.skipped {
            for (k, v) in self.counters {
                ev.count(&k, v);
            }
            return false;
        }
        let inconclusive = self.is_inconclusive();
        if inconclusive {
            ev.inconclusive += 1;
            ev.count("inconclusive_scenarios", 1);
            if ev.counter("inconclusive_reasons_logged") < 5 {
                ev.count("inconclusive_reasons_logged", 1);
                eprintln!("C20 inconclusive scenario: {}", self.inconclusive.join("; "));
            }
            ev.eval(None);
            return true;
        }
        ev.eval(self.nontrivial);
        for (k, v) in self.counters {
            ev.count(&k, v);
        }
        for id in self.known {
            ev.known(findings, id);
        }
        for (sig, detail) in self.violations {
            ev.violation(sig, detail);
        }
        if let Some(s) = self.sample {
            ev.sample(s);
        }
        false
    }
}

/// a library result, reduced to what the oracles compare
#[derive(Debug, Clone, PartialEq)]
pub enum Got<T> {
    Ok(T),
    /// the server's `err` answer: (error code, metadata)
    Server(u8, String),
    /// a value could not be converted to the requested type on the client side
    Serde(String),
    /// the library gave up after 100 CAS retries
    Timeout(String),
    /// the call did not get an answer: callback dropped, connection gone …
    Other(String),
}

pub fn classify<T>(r: ConnectionResult<T>) -> Got<T> {
    match r {
        Ok(v) => Got::Ok(v),
        Err(ConnectionError::ServerResponse(e)) => Got::Server(e.error_code.clone() as u8, e.metadata.clone()),
        Err(ConnectionError::SerdeError(e)) => Got::Serde(e.to_string()),
        Err(ConnectionError::Timeout(e)) => Got::Timeout(*e),
        Err(e) => Got::Other(format!("{e:?}")),
    }
}

pub fn short<T: Debug>(v: &T) -> String {
    let s = format!("{v:?}");
    if s.len() > 300 {
        let cut: String = s.chars().take(300).collect();
        format!("{cut}…")
    } else {
        s
    }
}

/// awaits `fut` under the generous watchdog; None = watchdog expired (inconclusive)
pub async fn guarded<T>(fut: impl Future<Output = T>) -> Option<T> {
    tokio::time::timeout(WATCHDOG, fut).await.ok()
}
