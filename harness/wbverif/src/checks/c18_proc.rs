//! C18, process variant: the real `worterbuch` binary (built from /repo's current tree, no hooks)
//! runs as a child process with ReDB persistence, is driven over its unix socket with the
//! harness's own minimal client and is ended with SIGKILL at random instants (also with requests
//! in flight, and during the start that follows a kill) or with SIGTERM (clean stop). The next
//! child on the same data directory is read back and judged by the oracle of `c18`.

use super::c18::{
    F_INVALID_REGISTRATION, PROPERTY, Call, CallResult, Driver, Exec, Gen, Reply, SLOTS, Snapshot, StopMode, gen_op, gen_unanswered_op, is_sys,
    note_trouble, post_op, record, run_op,
};
use crate::{
    Ctx,
    core::par_shards,
    evidence::Evidence,
    model::Entry,
    rng::Rng,
    sock::{RecvError, Session, T, kind_of},
};
use serde_json::{Value, json};
use std::{
    path::{Path, PathBuf},
    process::{Child, Command, Stdio},
    time::{Duration, Instant},
};

/// builds the server binary from /repo's current tree; Err = harness error.
/// (VERIF_C18_REPO / VERIF_C18_BIN_TARGET point a validation run at a scratch worktree of /repo.)
fn build_server_binary(into: &Path) -> Result<PathBuf, String> {
    let repo = std::env::var("VERIF_C18_REPO").unwrap_or_else(|_| "/repo".to_owned());
    let target_dir = std::env::var("VERIF_C18_BIN_TARGET").unwrap_or_else(|_| "/verif/target-bin".to_owned());
    let manifest = format!("{repo}/Cargo.toml");
    let out = Command::new("cargo")
        .args([
            "build",
            "--offline",
            "--manifest-path",
            &manifest,
            "-p",
            "worterbuch",
            "--bin",
            "worterbuch",
            "--no-default-features",
            "--features",
            "redb",
            "--target-dir",
            &target_dir,
        ])
        .env_remove("RUSTFLAGS")
        .env_remove("CARGO_TARGET_DIR")
        .env_remove("CARGO_BUILD_TARGET_DIR")
        .stdin(Stdio::null())
        .output()
        .map_err(|e| format!("cannot run cargo: {e}"))?;
    if !out.status.success() {
        let err = String::from_utf8_lossy(&out.stderr);
        let tail: String = err.lines().rev().take(30).collect::<Vec<_>>().into_iter().rev().collect::<Vec<_>>().join("\n");
        return Err(format!("cargo build of the server binary failed:\n{tail}"));
    }
    let built = Path::new(&target_dir).join("debug").join("worterbuch");
    // the target dir is shared: keep a private copy so that a concurrent build with other
    // features cannot swap the executable under a running check
    let copy = into.join("worterbuch-server");
    std::fs::copy(&built, &copy).map_err(|e| format!("cannot copy {}: {e}", built.display()))?;
    Ok(copy)
}

fn free_port() -> Option<u16> {
    std::net::TcpListener::bind("127.0.0.1:0")
        .ok()
        .and_then(|l| l.local_addr().ok())
        .map(|a| a.port())
}

struct ChildServer {
    child: Child,
    socket: PathBuf,
}

impl ChildServer {
    fn spawn(bin: &Path, dir: &Path, generation: usize) -> Result<ChildServer, String> {
        let socket = dir.join(format!("wb-{generation}.sock"));
        std::fs::remove_file(&socket).ok();
        let data = dir.join("data");
        std::fs::create_dir_all(&data).map_err(|e| e.to_string())?;
        let log = std::fs::File::create(dir.join(format!("server-{generation}.log"))).map_err(|e| e.to_string())?;
        let log2 = log.try_clone().map_err(|e| e.to_string())?;
        let port = free_port().ok_or("no free port")?;
        let mut cmd = Command::new(bin);
        for (k, _) in std::env::vars() {
            if k.starts_with("WORTERBUCH_") || k.starts_with("WB_VERIF") {
                cmd.env_remove(k);
            }
        }
        cmd.current_dir(dir)
            .env("WORTERBUCH_USE_PERSISTENCE", "true")
            .env("WORTERBUCH_PERSISTENCE_MODE", "ReDB")
            .env("WORTERBUCH_DATA_DIR", &data)
            .env("WORTERBUCH_UNIX_SOCKET_PATH", &socket)
            .env("WORTERBUCH_DISABLE_TCP", "true")
            .env("WORTERBUCH_DISABLE_WS", "true")
            .env("WORTERBUCH_WS_SERVER_PORT", port.to_string())
            .env("WORTERBUCH_SHUTDOWN_TIMEOUT", "60")
            .env("WORTERBUCH_LOG", "warn")
            .env("RUST_LOG", "warn")
            .stdin(Stdio::null())
            .stdout(Stdio::from(log))
            .stderr(Stdio::from(log2));
        let child = cmd.spawn().map_err(|e| format!("cannot start {}: {e}", bin.display()))?;
        Ok(ChildServer { child, socket })
    }

    /// waits until the socket accepts connections (then persistence has been restored)
    fn wait_ready(&mut self, watchdog: Duration) -> Result<(), String> {
        let started = Instant::now();
        loop {
            if std::os::unix::net::UnixStream::connect(&self.socket).is_ok() {
                return Ok(());
            }
            if let Ok(Some(status)) = self.child.try_wait() {
                return Err(format!("server process ended during start: {status}"));
            }
            if started.elapsed() > watchdog {
                return Err(format!("socket did not come up within {watchdog:?}"));
            }
            std::thread::sleep(Duration::from_millis(2));
        }
    }

    fn sigkill(mut self) {
        self.child.kill().ok();
        self.child.wait().ok();
    }

    /// SIGTERM and wait for the process to end by itself
    fn sigterm(mut self, watchdog: Duration) -> Result<(), String> {
        // SAFETY: plain kill(2) on our own child
        let rc = unsafe { libc::kill(self.child.id() as libc::pid_t, libc::SIGTERM) };
        if rc != 0 {
            self.child.kill().ok();
            self.child.wait().ok();
            return Err("kill(SIGTERM) failed".into());
        }
        let started = Instant::now();
        loop {
            match self.child.try_wait() {
                Ok(Some(_)) => return Ok(()),
                Ok(None) => {}
                Err(e) => return Err(e.to_string()),
            }
            if started.elapsed() > watchdog {
                self.child.kill().ok();
                self.child.wait().ok();
                return Err(format!("server did not end within {watchdog:?} after SIGTERM"));
            }
            std::thread::sleep(Duration::from_millis(2));
        }
    }
}

impl Drop for ChildServer {
    fn drop(&mut self) {
        self.child.kill().ok();
        self.child.wait().ok();
    }
}

struct SockDriver {
    socket: PathBuf,
    control: Session,
    sessions: Vec<Option<Session>>,
}

fn recv_err(what: &str, e: RecvError) -> String {
    format!("{what}: {e:?}")
}

fn parse_kvps(v: Option<&Value>) -> Option<Vec<(String, Value)>> {
    v?.as_array()?
        .iter()
        .map(|kv| Some((kv.get("key")?.as_str()?.to_owned(), kv.get("value")?.clone())))
        .collect()
}

fn request(call: &Call, tid: u64) -> (Value, &'static [&'static str]) {
    match call {
        Call::Set { key, value, .. } => (json!({"set": {"transactionId": tid, "key": key, "value": value}}), &["ack"]),
        Call::CGet { key } => (json!({"cGet": {"transactionId": tid, "key": key}}), &["cState"]),
        Call::CSet {
            key, value, version, ..
        } => (
            json!({"cSet": {"transactionId": tid, "key": key, "value": value, "version": version}}),
            &["ack"],
        ),
        Call::Delete { key, .. } => (json!({"delete": {"transactionId": tid, "key": key}}), &["state"]),
        Call::PDelete { pattern, .. } => (
            json!({"pDelete": {"transactionId": tid, "requestPattern": pattern}}),
            &["pState"],
        ),
        Call::Import { .. } => (Value::Null, &[]),
    }
}

fn parse_answer(call: &Call, msg: &Value) -> Result<Result<Reply, u8>, String> {
    let body = msg.as_object().and_then(|o| o.values().next());
    if kind_of(msg) == Some("err") {
        let c = body
            .and_then(|b| b.get("errorCode"))
            .and_then(Value::as_u64)
            .ok_or_else(|| format!("err message without code: {msg}"))?;
        return Ok(Err(c as u8));
    }
    let bad = || format!("unexpected answer {msg}");
    Ok(Ok(match call {
        Call::Set { .. } | Call::CSet { .. } => Reply::Unit,
        Call::CGet { .. } => {
            let b = body.ok_or_else(bad)?;
            Reply::Versioned(
                b.get("value").cloned().ok_or_else(bad)?,
                b.get("version").and_then(Value::as_u64).ok_or_else(bad)?,
            )
        }
        Call::Delete { .. } => Reply::Value(body.and_then(|b| b.get("deleted")).cloned().ok_or_else(bad)?),
        Call::PDelete { .. } => Reply::Kvps(parse_kvps(body.and_then(|b| b.get("deleted"))).ok_or_else(bad)?),
        Call::Import { .. } => return Err("import is not available on the socket".into()),
    }))
}

impl SockDriver {
    async fn new(socket: &Path) -> Result<SockDriver, String> {
        Ok(SockDriver {
            socket: socket.to_owned(),
            control: Session::connect(socket).await?,
            sessions: (0..SLOTS).map(|_| None).collect(),
        })
    }

    fn session(&mut self, call: &Call) -> Result<&mut Session, String> {
        match call {
            Call::CGet { .. } | Call::Import { .. } => Ok(&mut self.control),
            Call::Set { slot, .. } | Call::CSet { slot, .. } | Call::Delete { slot, .. } | Call::PDelete { slot, .. } => {
                self.sessions[*slot].as_mut().ok_or_else(|| format!("slot {slot} has no session"))
            }
        }
    }
}

impl Driver for SockDriver {
    async fn call(&mut self, call: Call) -> CallResult {
        let s = self.session(&call)?;
        let tid = s.tid();
        let (msg, terminal) = request(&call, tid);
        let answer = s.call(&msg, terminal, T).await.map_err(|e| recv_err("request", e))?;
        parse_answer(&call, &answer)
    }

    async fn post(&mut self, call: Call) -> Result<(), String> {
        let s = self.session(&call)?;
        let tid = s.tid();
        let (msg, _) = request(&call, tid);
        s.send(&msg).await
    }

    async fn connect(&mut self, slot: usize) -> Result<String, String> {
        let s = Session::connect(&self.socket).await?;
        let id = s.client_id.clone();
        if id.is_empty() {
            return Err("welcome message without client id".into());
        }
        // the session is known to the core once a request of it has been answered
        self.sessions[slot] = Some(s);
        Ok(id)
    }

    async fn disconnect(&mut self, slot: usize) -> Result<(), String> {
        let s = self.sessions[slot].take().ok_or("no session")?;
        let id = s.client_id.clone();
        drop(s);
        // the core removes `$SYS/clients/<id>/#` in the same turn in which it buries the grave
        // goods and publishes the last will: once the subtree is gone the session's end has been
        // processed completely
        let pattern = format!("$SYS/clients/{id}/#");
        let started = Instant::now();
        loop {
            let t = self.control.tid();
            let m = self
                .control
                .call(&json!({"pGet": {"transactionId": t, "requestPattern": pattern}}), &["pState"], T)
                .await
                .map_err(|e| recv_err("barrier after disconnect", e))?;
            let n = m
                .get("pState")
                .and_then(|p| p.get("keyValuePairs"))
                .and_then(Value::as_array)
                .map(Vec::len);
            match n {
                Some(0) => return Ok(()),
                Some(_) => {}
                None => return Err(format!("barrier after disconnect: unexpected answer {m}")),
            }
            if started.elapsed() > Duration::from_secs(30) {
                return Err("the server did not process the end of a session within 30 s".into());
            }
            tokio::time::sleep(Duration::from_micros(300)).await;
        }
    }

    fn supports_import(&self) -> bool {
        false
    }

    async fn read_back(&mut self) -> Result<(Snapshot, usize, usize), String> {
        let m = self.control.pget("#").await.map_err(|e| recv_err("pget #", e))?;
        let kvps = parse_kvps(m.get("pState").and_then(|p| p.get("keyValuePairs")))
            .ok_or_else(|| format!("pget #: unexpected answer {m}"))?;
        let n_all = kvps.len();
        let mut snap = Snapshot::new();
        for (key, value) in kvps {
            if is_sys(&key) {
                continue;
            }
            let t = self.control.tid();
            let call = Call::CGet { key: key.clone() };
            let (msg, terminal) = request(&call, t);
            let a = self.control.call(&msg, terminal, T).await.map_err(|e| recv_err("cget", e))?;
            match parse_answer(&call, &a)? {
                Ok(Reply::Versioned(v, version)) if v == value => {
                    if snap.insert(key.clone(), Entry { value, version }).is_some() {
                        return Err(format!("pget # returned {key} twice"));
                    }
                }
                other => return Err(format!("cget {key} after pget: {other:?}")),
            }
        }
        // the socket protocol has no request for the entry count
        Ok((snap, n_all, n_all))
    }
}

#[derive(Clone, Debug)]
struct ProcPhase {
    requests: usize,
    stop: StopMode,
    unanswered: usize,
    delay_us: u64,
    /// SIGKILL the restarting server after this many microseconds, then start once more
    kill_during_restart_us: Option<u64>,
}

fn start_child(ev: &mut Evidence, bin: &Path, dir: &Path, generation: &mut usize) -> Option<ChildServer> {
    *generation += 1;
    for attempt in 0..3 {
        match ChildServer::spawn(bin, dir, *generation * 10 + attempt)
            .and_then(|mut c| c.wait_ready(Duration::from_secs(60)).map(|_| c))
        {
            Ok(c) => return Some(c),
            Err(e) => {
                ev.count("child_start_retries", 1);
                if attempt == 2 {
                    ev.inconclusive += 1;
                    note_trouble(ev, &format!("child server did not start: {e}"));
                }
            }
        }
    }
    None
}

fn run_proc_chain(ctx: &Ctx, ev: &mut Evidence, bin: &Path, dir: &Path, seed: u64, phases: &[ProcPhase], g: &Gen) {
    let Ok(rt) = tokio::runtime::Builder::new_current_thread().enable_all().build() else {
        ev.inconclusive += 1;
        return;
    };
    let mut rng = Rng::new(seed);
    let mut generation = 0;
    let Some(mut server) = start_child(ev, bin, dir, &mut generation) else { return };
    let mut base = Snapshot::new();
    let mut uid = (seed % 1000) * 1_000_000 + 500_000;
    for (pi, plan) in phases.iter().enumerate() {
        let scenario = json!({"seed": seed, "phase": pi, "plan": format!("{plan:?}"), "workload": format!("{g:?}"),
            "data_dir": dir.display().to_string()});
        let mut ex = Exec::new(base.clone(), uid, SLOTS);
        let socket = server.socket.clone();
        // the sessions stay open until the process is gone: no session end is processed that the
        // step sequence does not contain
        let (live, sessions) = rt.block_on(async {
            let mut d = match SockDriver::new(&socket).await {
                Ok(d) => d,
                Err(e) => {
                    ex.trouble = Some(format!("control session: {e}"));
                    return (None, None);
                }
            };
            for _ in 0..plan.requests {
                let op = gen_op(&mut rng, &mut ex, g, d.supports_import());
                run_op(&mut d, &mut ex, &op).await;
                if ex.trouble.is_some() {
                    return (None, Some(d));
                }
            }
            if plan.stop == StopMode::Clean {
                let live = d.read_back().await;
                return (Some(live), Some(d));
            }
            if plan.unanswered > 0
                && let Some(c) = (0..SLOTS).find(|c| ex.slots[*c].connected)
            {
                for _ in 0..plan.unanswered {
                    let op = gen_unanswered_op(&mut rng, &mut ex, c);
                    post_op(&mut d, &mut ex, &op).await;
                }
            }
            if plan.delay_us > 0 {
                tokio::time::sleep(Duration::from_micros(plan.delay_us)).await;
            }
            (None, Some(d))
        });
        uid = ex.uid;
        if let Some(t) = &ex.trouble {
            ev.inconclusive += 1;
            note_trouble(ev, t);
            return;
        }
        match live {
            Some(Err(t)) => {
                ev.inconclusive += 1;
                note_trouble(ev, &t);
                return;
            }
            Some(Ok((snap, _, _))) => {
                if snap != ex.m.store.map {
                    ev.inconclusive += 1;
                    note_trouble(ev, "the running server's state differs from the model before the stop");
                    return;
                }
                ev.count("live_read_backs_equal_to_model", 1);
            }
            None => {}
        }
        match plan.stop {
            StopMode::Kill => server.sigkill(),
            StopMode::Clean => {
                if let Err(t) = server.sigterm(Duration::from_secs(90)) {
                    ev.inconclusive += 1;
                    note_trouble(ev, &t);
                    return;
                }
            }
        }
        drop(sessions);
        if let Some(us) = plan.kill_during_restart_us {
            generation += 1;
            if let Ok(c) = ChildServer::spawn(bin, dir, generation * 10 + 9) {
                std::thread::sleep(Duration::from_micros(us));
                c.sigkill();
                ev.count("sigkill_during_restart", 1);
            }
        }
        server = match start_child(ev, bin, dir, &mut generation) {
            Some(s) => s,
            None => return,
        };
        let socket = server.socket.clone();
        let observed = match rt.block_on(async { SockDriver::new(&socket).await?.read_back().await }) {
            Ok((snap, _, _)) => snap,
            Err(t) => {
                ev.inconclusive += 1;
                note_trouble(ev, &format!("read-back after restart: {t}"));
                return;
            }
        };
        ev.count("keys_read_back_after_restart", observed.len() as u64);
        let variant = match (plan.stop, plan.unanswered > 0) {
            (StopMode::Clean, _) => "process_sigterm",
            (StopMode::Kill, false) => "process_sigkill",
            (StopMode::Kill, true) => "process_sigkill_with_requests_in_flight",
        };
        // sessions that were open when the process got SIGTERM: the server may or may not have
        // processed their end before it stopped
        let open_sessions: Vec<String> = ex
            .slots
            .iter()
            .filter(|s| s.connected)
            .filter_map(|s| s.id.clone())
            .collect();
        if !record(ev, ctx, &ex, &observed, plan.stop, variant, &scenario, &open_sessions) {
            // keep the data directory of a violating chain for the witness
            let keep = crate::evidence::verif_root().join("replays").join("C18").join(format!("datadir-{seed:016x}"));
            std::fs::create_dir_all(&keep).ok();
            for f in ["data/worterbuch.re.db"] {
                std::fs::copy(dir.join(f), keep.join("worterbuch.re.db")).ok();
            }
            return;
        }
        if ex.registered_invalid() && ctx.findings.open(F_INVALID_REGISTRATION, PROPERTY) {
            // recorded finding: the database may keep failing to load from here on
            ev.count("chains_ended_after_an_invalid_registration", 1);
            break;
        }
        base = observed;
    }
    server.sigterm(Duration::from_secs(90)).ok();
}

pub fn run(ctx: &Ctx, ev: &mut Evidence, root: &Path, rng: &Rng) {
    let bin = match build_server_binary(root) {
        Ok(b) => b,
        Err(e) => {
            eprintln!("HARNESS-ERROR: property=C18 {e}");
            crate::cleanup_scratch();
            std::process::exit(2);
        }
    };
    let target_cuts = ctx.tier.pick(30, 800);
    let g = Gen {
        invalid_registrations: true,
        unregister_by_delete: true,
        imports: false,
    };
    let mut prng = rng.fork(1);
    let mut jobs: Vec<(u64, Vec<ProcPhase>)> = vec![];
    let mut cuts = 0;
    let mut i = 0;
    while cuts < target_cuts {
        let n = prng.range(2, 4);
        let phases: Vec<ProcPhase> = (0..n)
            .map(|_| {
                let stop = if prng.chance(1, 5) { StopMode::Clean } else { StopMode::Kill };
                ProcPhase {
                    requests: prng.range(10, 120),
                    stop,
                    unanswered: if stop == StopMode::Kill && prng.chance(2, 3) { prng.range(1, 40) } else { 0 },
                    delay_us: *prng.pick(&[0, 0, 100, 300, 1000, 3000, 10_000]),
                    kill_during_restart_us: (stop == StopMode::Kill && prng.chance(1, 4)).then(|| prng.range(0, 30_000) as u64),
                }
            })
            .collect();
        cuts += phases.len();
        jobs.push((rng.fork(100 + i).0, phases));
        i += 1;
    }
    let n_jobs = jobs.len();
    par_shards(ev, n_jobs, |j, ev| {
        let (seed, phases) = &jobs[j];
        let dir = root.join(format!("proc-{j}"));
        std::fs::create_dir_all(&dir).ok();
        run_proc_chain(ctx, ev, &bin, &dir, *seed, phases, &g);
        std::fs::remove_dir_all(&dir).ok();
    });
}
