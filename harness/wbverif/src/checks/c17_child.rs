//! C17, process variant: inputs that can exhaust the stack (keys and patterns of 10^3 - 2*10^5
//! segments, deeply nested JSON) or are very large, sent to the REAL server binary running as a
//! child process - an abort of the server escapes `catch_unwind`, so these inputs cannot be judged
//! in-process. One child process per input; after the hostile session a witness session must be
//! served and the child must still be running.

use super::c13_wire::*;
use crate::{Ctx, evidence::Evidence, rng::Rng};
use serde_json::{Value, json};
use std::{
    io::{BufRead, BufReader, Write},
    os::unix::net::UnixStream,
    path::{Path, PathBuf},
    process::{Child, Command, Stdio},
    time::{Duration, Instant},
};

pub const F_DEEP: &str = "F17-3";
/// under F17-3 a server death is accepted only for keys / patterns deeper than this
const DEEP_FROM: usize = 500;

pub fn build_server_binary() -> Result<PathBuf, String> {
    // VERIF_REPO_MANIFEST / VERIF_TARGET_BIN point a validation run at a scratch worktree of /repo
    let manifest = std::env::var("VERIF_REPO_MANIFEST").unwrap_or_else(|_| "/repo/Cargo.toml".into());
    let target = std::env::var("VERIF_TARGET_BIN").unwrap_or_else(|_| "/verif/target-bin".into());
    let out = Command::new("cargo")
        .args([
            "build",
            "--offline",
            "--manifest-path",
            manifest.as_str(),
            "-p",
            "worterbuch",
            "--no-default-features",
            "--features",
            "redb",
            "--target-dir",
            target.as_str(),
        ])
        .stdin(Stdio::null())
        .output()
        .map_err(|e| format!("cannot run cargo: {e}"))?;
    if !out.status.success() {
        let err = String::from_utf8_lossy(&out.stderr);
        let tail: String = err.chars().rev().take(4000).collect::<String>().chars().rev().collect();
        return Err(tail);
    }
    let bin = PathBuf::from(format!("{target}/debug/worterbuch"));
    if bin.exists() { Ok(bin) } else { Err("binary missing after the build".into()) }
}

fn free_port() -> u16 {
    std::net::TcpListener::bind("127.0.0.1:0").and_then(|l| l.local_addr()).map(|a| a.port()).unwrap_or(18_999)
}

struct ServerProcess {
    child: Child,
    socket: PathBuf,
    stderr: PathBuf,
}

impl ServerProcess {
    fn start(binary: &Path, dir: &Path) -> Result<ServerProcess, String> {
        let socket = dir.join("wb.sock");
        let stderr = dir.join("stderr.log");
        std::fs::create_dir_all(dir.join("data")).ok();
        let child = Command::new(binary)
            .env("WORTERBUCH_UNIX_SOCKET_PATH", &socket)
            .env("WORTERBUCH_DISABLE_TCP", "true")
            .env("WORTERBUCH_DISABLE_WS", "true")
            // the web server cannot be switched off; give it a port of its own
            .env("WORTERBUCH_WS_BIND_ADDRESS", "127.0.0.1")
            .env("WORTERBUCH_WS_SERVER_PORT", free_port().to_string())
            .env("WORTERBUCH_DATA_DIR", dir.join("data"))
            .env("WORTERBUCH_USE_PERSISTENCE", "false")
            .env("WORTERBUCH_LOG", "error")
            .stdin(Stdio::null())
            .stdout(Stdio::null())
            .stderr(std::fs::File::create(&stderr).map(Stdio::from).map_err(|e| e.to_string())?)
            .spawn()
            .map_err(|e| format!("cannot start the server binary: {e}"))?;
        let mut p = ServerProcess { child, socket, stderr };
        let t0 = Instant::now();
        loop {
            if UnixStream::connect(&p.socket).is_ok() {
                return Ok(p);
            }
            if let Ok(Some(s)) = p.child.try_wait() {
                return Err(format!("server binary exited at start: {s:?}: {}", p.stderr_tail()));
            }
            if t0.elapsed() > Duration::from_secs(60) {
                p.kill();
                return Err("server binary did not open its socket within 60 s".into());
            }
            std::thread::sleep(Duration::from_millis(20));
        }
    }

    fn running(&mut self) -> Result<(), String> {
        match self.child.try_wait() {
            Ok(None) => Ok(()),
            Ok(Some(s)) => {
                use std::os::unix::process::ExitStatusExt;
                Err(format!("exit status {:?}, signal {:?}", s.code(), s.signal()))
            }
            Err(e) => Err(e.to_string()),
        }
    }

    fn stderr_tail(&self) -> String {
        let t = std::fs::read(&self.stderr).unwrap_or_default();
        let t = String::from_utf8_lossy(&t);
        t.chars().rev().take(1500).collect::<String>().chars().rev().collect()
    }

    fn kill(&mut self) {
        self.child.kill().ok();
        self.child.wait().ok();
    }
}

impl Drop for ServerProcess {
    fn drop(&mut self) {
        self.kill();
    }
}

struct Client {
    r: BufReader<UnixStream>,
    w: UnixStream,
    client_id: String,
}

impl Client {
    fn connect(socket: &Path) -> Result<Client, String> {
        let s = UnixStream::connect(socket).map_err(|e| format!("connect: {e}"))?;
        s.set_read_timeout(Some(Duration::from_secs(30))).ok();
        s.set_write_timeout(Some(Duration::from_secs(30))).ok();
        let w = s.try_clone().map_err(|e| e.to_string())?;
        let mut c = Client {
            r: BufReader::new(s),
            w,
            client_id: String::new(),
        };
        let welcome = c.read().map_err(|e| format!("no welcome: {e}"))?;
        c.client_id = welcome["welcome"]["clientId"].as_str().unwrap_or("").to_owned();
        Ok(c)
    }

    fn send(&mut self, bytes: &[u8]) -> Result<(), String> {
        self.w.write_all(bytes).and_then(|_| self.w.write_all(b"\n")).map_err(|e| e.to_string())
    }

    /// next message; Err("closed") / Err("timeout")
    fn read(&mut self) -> Result<Value, String> {
        let mut line = Vec::new();
        match self.r.read_until(b'\n', &mut line) {
            Ok(0) => Err("closed".into()),
            Ok(_) => Ok(if line.len() > 1 << 16 { json!({"big": {"bytes": line.len()}}) } else { parse_line(&line[..line.len().saturating_sub(1)]) }),
            Err(e) if matches!(e.kind(), std::io::ErrorKind::WouldBlock | std::io::ErrorKind::TimedOut) => Err("timeout".into()),
            Err(_) => Err("closed".into()),
        }
    }

    /// sends a request and reads until a message with its transaction id arrives
    fn ask(&mut self, msg: &Value) -> Result<Value, String> {
        self.send(msg.to_string().as_bytes())?;
        let tid = tid_of(msg);
        loop {
            let m = self.read()?;
            if tid_of(&m) == tid || kind_of(&m) == Some("big") {
                return Ok(m);
            }
        }
    }
}

fn witness_round_trip(socket: &Path, n: u64) -> Result<(), String> {
    let mut w = Client::connect(socket)?;
    let key = format!("witness/child/{n}");
    let value = json!({"n": n});
    let a = w.ask(&m_set(1, &key, value.clone()))?;
    if kind_of(&a) != Some("ack") {
        return Err(format!("set -> {a}"));
    }
    let g = w.ask(&m_get(2, &key))?;
    if body_of(&g).and_then(|b| b.get("value")) != Some(&value) {
        return Err(format!("get -> {g}"));
    }
    Ok(())
}

fn deep(seg: &str, depth: usize) -> String {
    let mut s = String::from("h");
    for _ in 0..depth {
        s.push('/');
        s.push_str(seg);
    }
    s
}

#[derive(Clone)]
struct Input {
    name: String,
    depth: usize,
    /// lines sent one after the other, each awaited (answer, close or timeout)
    lines: Vec<Vec<u8>>,
}

fn inputs(ctx: &Ctx) -> Vec<Input> {
    let mut out = vec![];
    let thorough = ctx.tier == crate::evidence::Tier::Thorough;
    let depths: &[usize] = if thorough {
        &[100, 300, 700, 1_000, 2_000, 4_000, 10_000, 50_000, 100_000, 200_000]
    } else {
        &[300, 1_000, 4_000, 10_000, 100_000, 200_000]
    };
    let scripts: &[(&str, &[&str])] = &[
        ("set+delete", &["set", "delete"]),
        ("set+pdelete", &["set", "pdelete"]),
        ("set+pget", &["set", "pget"]),
        ("set+get+ls", &["set", "get", "ls"]),
        ("lock+release", &["lock", "release"]),
        ("release-unlocked", &["release"]),
        ("subscribe", &["sub"]),
        ("psubscribe", &["psub"]),
        ("subscribe-ls", &["subls"]),
        ("cset+cget", &["cset", "cget"]),
        ("publish", &["publish"]),
        ("set+subscribe+delete", &["set", "sub", "delete"]),
        ("grave-goods", &["gravegoods"]),
        ("pls", &["set", "pls"]),
    ];
    let mut rng = Rng::new(ctx.seed).fork(0xC17C);
    for d in depths {
        // quick: a seeded sample of the scripts per depth, thorough: all of them
        let mut chosen: Vec<usize> = (0..scripts.len()).collect();
        if !thorough {
            rng.shuffle(&mut chosen);
            chosen.truncate(if *d >= 100_000 { 2 } else { 4 });
        }
        for i in chosen {
            let (name, ops) = scripts[i];
            let key = deep("d", *d);
            let pattern = deep("?", *d);
            let mut lines = vec![];
            for (t, op) in ops.iter().enumerate() {
                let t = t as u64 + 1;
                let m = match *op {
                    "set" => m_set(t, &key, json!(1)),
                    "delete" => m_delete(t, &key),
                    "pdelete" => m_pdelete(t, "h/d/#", None),
                    "pget" => m_pget(t, "h/#"),
                    "get" => m_get(t, &key),
                    "ls" => m_ls(t, Some(&key)),
                    "pls" => m_pls(t, Some(&pattern)),
                    "lock" => m_lock(t, &key),
                    "release" => m_release_lock(t, &key),
                    "sub" => m_subscribe(t, &key, false, None),
                    "psub" => m_psubscribe(t, &pattern, false, None, None),
                    "subls" => m_subscribe_ls(t, Some(&key)),
                    "cset" => m_cset(t, &key, json!(1), 0),
                    "cget" => m_cget(t, &key),
                    "publish" => m_publish(t, &key, json!(1)),
                    _ => m_set(t, "$SYS/clients/CLIENT/graveGoods", json!([pattern.clone(), format!("{key}/#")])),
                };
                lines.push(m.to_string().into_bytes());
            }
            out.push(Input {
                name: format!("key-depth-{d}:{name}"),
                depth: *d,
                lines,
            });
        }
    }
    // deeply nested JSON (the parser has a recursion limit; the nesting must be refused, not crash)
    for depth in [10_000usize, 100_000, 1_000_000] {
        let mut bare = vec![b'['; depth];
        bare.extend(std::iter::repeat_n(b']', depth));
        out.push(Input {
            name: format!("nested-array-{depth}"),
            depth: 0,
            lines: vec![bare],
        });
        let mut b = b"{\"set\":{\"transactionId\":1,\"key\":\"h/deep\",\"value\":".to_vec();
        b.extend(std::iter::repeat_n(b'[', depth));
        b.extend(std::iter::repeat_n(b']', depth));
        b.extend_from_slice(b"}}");
        out.push(Input {
            name: format!("nested-value-{depth}"),
            depth: 0,
            lines: vec![b],
        });
        if !thorough {
            break;
        }
    }
    // the longest lines in scope
    out.push(Input {
        name: "garbage-line-8MiB".into(),
        depth: 0,
        lines: vec![vec![b'x'; 8 << 20]],
    });
    out.push(Input {
        name: "giant-value-8MiB".into(),
        depth: 0,
        lines: vec![m_set(1, "h/giant", json!("g".repeat((8 << 20) - 100))).to_string().into_bytes(), m_get(2, "h/giant").to_string().into_bytes(), m_delete(3, "h/giant").to_string().into_bytes()],
    });
    if thorough {
        out.push(Input {
            name: "giant-value-60MiB".into(),
            depth: 0,
            lines: vec![m_set(1, "h/giant", json!("g".repeat(60 << 20))).to_string().into_bytes(), m_delete(3, "h/giant").to_string().into_bytes()],
        });
    }
    out
}

/// Ok(outcome class) or Err((signature, detail))
fn run_input(binary: &Path, dir: &Path, input: &Input, n: u64) -> Result<String, (String, Value)> {
    let mut server = match ServerProcess::start(binary, dir) {
        Ok(s) => s,
        Err(e) => return Ok(format!("inconclusive: {e}")),
    };
    let mut log: Vec<String> = vec![];
    let mut hostile = match Client::connect(&server.socket) {
        Ok(c) => c,
        Err(e) => return Ok(format!("inconclusive: {e}")),
    };
    if witness_round_trip(&server.socket, n).is_err() {
        return Ok("inconclusive: witness not served before the input".into());
    }
    let mut session = "open";
    for line in &input.lines {
        let text = String::from_utf8_lossy(&line[..line.len().min(120)]).replace("CLIENT", &hostile.client_id);
        let line: Vec<u8> = if line.len() < 4096 && line.windows(6).any(|w| w == b"CLIENT") {
            String::from_utf8_lossy(line).replace("CLIENT", &hostile.client_id).into_bytes()
        } else {
            line.clone()
        };
        log.push(format!("> {}{} ({} bytes)", text, if line.len() > 120 { "…" } else { "" }, line.len()));
        let tid = serde_json::from_slice::<Value>(&line).ok().as_ref().and_then(tid_of);
        if hostile.send(&line).is_err() {
            log.push("  write failed".into());
            session = "closed";
            break;
        }
        // the answer, the close of the connection, or (nothing to wait for) go on
        loop {
            match hostile.read() {
                Ok(m) => {
                    let s = m.to_string();
                    log.push(format!("< {}", s.chars().take(160).collect::<String>()));
                    if tid.is_none() || tid_of(&m) == tid || kind_of(&m) == Some("big") {
                        break;
                    }
                }
                Err(e) => {
                    log.push(format!("  {e}"));
                    if e == "closed" {
                        session = "closed";
                    }
                    break;
                }
            }
        }
        if session == "closed" {
            break;
        }
    }
    let first = witness_round_trip(&server.socket, n + 1);
    // the end of the hostile session is input as well (unsubscribe, unlock, grave goods)
    let hostile_id = hostile.client_id.clone();
    drop(hostile);
    let mut second = Ok(());
    if first.is_ok() {
        // logical barrier: the server has processed the disconnect when the client's entries are gone
        if let Ok(mut w) = Client::connect(&server.socket) {
            let t0 = Instant::now();
            loop {
                match w.ask(&m_get(1, &format!("$SYS/clients/{hostile_id}/protocol"))) {
                    Ok(m) if kind_of(&m) == Some("state") && t0.elapsed() < Duration::from_secs(20) => std::thread::sleep(Duration::from_millis(10)),
                    _ => break,
                }
            }
        }
        second = witness_round_trip(&server.socket, n + 2);
    }
    std::thread::sleep(Duration::from_millis(30));
    let running = server.running();
    let outcome = match (&first, &second, &running) {
        (Ok(()), Ok(()), Ok(())) => return Ok(format!("survived:{session}")),
        (_, _, Err(status)) => format!("server process died ({status})"),
        (Err(e), _, Ok(())) | (_, Err(e), Ok(())) => {
            if e.contains("timeout") {
                // nothing proves that the server is down
                return Ok("inconclusive: witness timed out, process still running".into());
            }
            format!("witness not served although the process runs: {e}")
        }
    };
    let stderr = server.stderr_tail();
    Err((
        outcome,
        json!({"input": input.name, "key_depth": input.depth, "log": log, "witness_after_input": format!("{first:?}"), "witness_after_disconnect": format!("{second:?}"),
               "process": format!("{running:?}"), "server_stderr_tail": stderr}),
    ))
}

pub fn run(ctx: &Ctx, binary: &Path, ev: &mut Evidence) {
    let deep_open = ctx.findings.open(F_DEEP, "C17");
    let all = inputs(ctx);
    let results: std::sync::Mutex<Vec<(usize, Result<String, (String, Value)>)>> = std::sync::Mutex::new(vec![]);
    let next = std::sync::atomic::AtomicUsize::new(0);
    let workers = 6usize.min(all.len().max(1));
    std::thread::scope(|s| {
        for _ in 0..workers {
            s.spawn(|| {
                loop {
                    let i = next.fetch_add(1, std::sync::atomic::Ordering::SeqCst);
                    if i >= all.len() {
                        break;
                    }
                    let dir = ctx.scratch(&format!("c17-child-{i}"));
                    let r = run_input(binary, &dir, &all[i], i as u64 * 10);
                    std::fs::remove_dir_all(&dir).ok();
                    if let Ok(mut l) = results.lock() {
                        l.push((i, r));
                    }
                }
            });
        }
    });
    let mut results = results.into_inner().unwrap_or_default();
    results.sort_by_key(|r| r.0);
    for (i, r) in results {
        let input = &all[i];
        ev.count("child_process_runs", 1);
        match r {
            Ok(outcome) if outcome.starts_with("inconclusive") => {
                ev.inconclusive += 1;
                ev.count(&format!("child_{outcome}").chars().take(80).collect::<String>(), 1);
            }
            Ok(outcome) => {
                ev.count(&format!("child_{}", outcome.replace(':', "_session_")), 1);
                ev.eval(Some(crate::rng::hash_str(&format!("{}|{}", input.name, outcome))));
                if ev.wants_sample() && i % 9 == 0 {
                    ev.sample(json!({"child_process_input": input.name, "outcome": outcome}));
                }
            }
            Err((what, detail)) => {
                let stack_overflow = detail["server_stderr_tail"].as_str().is_some_and(|s| s.contains("overflowed its stack"));
                if deep_open && input.depth > DEEP_FROM && stack_overflow && what.starts_with("server process died") {
                    ev.known(&ctx.findings, F_DEEP);
                    ev.count("child_server_aborted_by_F17-3", 1);
                    ev.eval(Some(crate::rng::hash_str(&format!("{}|aborted", input.name))));
                    if ev.wants_sample() {
                        ev.sample(json!({"child_process_input": input.name, "outcome": what, "log": detail["log"]}));
                    }
                } else {
                    let class = input.name.split(':').next().unwrap_or("").to_owned();
                    ev.violation(format!("real server binary, input {class}: {}", what.split('(').next().unwrap_or("").trim()), detail);
                }
            }
        }
    }
}
