//! C20 monitor 1 (+ the fake-server half of monitor 4): pairing of answers with calls, and
//! "the library sends what it was given", against the scripted fake server.
//!
//! Many tasks on cloned handles of ONE connection issue calls of the whole public API; every call
//! carries a unique call id in its key / pattern / parent / value. The fake server answers batches
//! of requests in a random interleaving and echoes the call id, so a call that resolves with
//! anything but the answer to that very call is seen. Afterwards the fake server's log of received
//! messages is matched one-to-one against the calls that were made (kind, every field, the
//! transaction id returned by the fire-and-forget variants, the kind of each unsubscribe), and the
//! `all_messages` tap of the library must show exactly what the fake server wrote.

use super::{
    c20_fake::{
        self as fake, Fake, FakeLog, FakeOptions, Outcome, REFUSED_CODE, children, echo, event_is_delete, event_key,
        event_value, initial_events, kvps, ls_event, meta, outcome,
    },
    c20_util::{F_SPUB_CONCURRENT, F_UNSUB_LS_ASYNC, Got, Open, Report, classify, guarded, short},
};
use crate::rng::{Rng, mix};
use serde_json::{Value, json};
use std::{collections::BTreeMap, fmt::Debug, path::Path, time::Duration};
use tokio::sync::mpsc::UnboundedReceiver;
use worterbuch_client::{ConnectionResult, TypedKeyValuePair, TypedPStateEvent, Worterbuch};

#[derive(Clone, Debug)]
pub struct PairingParams {
    pub tasks: usize,
    pub calls_per_task: usize,
    pub tcp: bool,
    /// add a group of tasks that publish concurrently on ONE spub stream
    pub shared_stream: bool,
}

/// a message that a call must have made the library send
#[derive(Clone, Debug)]
struct ExpMsg {
    api: &'static str,
    kind: &'static str,
    /// None: the message has no call id and is identified by kind + transaction id (unsubscribe)
    call_id: Option<u64>,
    /// expected body without the transaction id (None = only kind + tid are compared)
    body: Option<Value>,
    /// Some(t): the transaction id must be t (returned by an `_async` variant or referring)
    tid: Option<u64>,
}

#[derive(Default)]
struct TaskLog {
    expected: Vec<ExpMsg>,
    problems: Vec<(String, Value)>,
    known: Vec<&'static str>,
    stuck: Option<String>,
    /// (api, call id) of the call that did not resolve
    stuck_call: Option<(&'static str, u64)>,
    resolved: u64,
    events: u64,
    /// (subscription tid, events received) to compare with what the fake server wrote
    subs: Vec<(u64, u64)>,
    per_api: BTreeMap<&'static str, u64>,
}

struct Tk {
    wb: Worterbuch,
    base: u64,
    next: u64,
    rng: Rng,
    log: TaskLog,
}

fn refused<T>(id: u64) -> Got<T> {
    Got::Server(REFUSED_CODE, meta(id))
}

/// expectation of a call whose positive answer maps to `ok`; `nsv` = what NoSuchValue maps to
fn expect<T>(id: u64, ok: T, nsv: Option<T>) -> Got<T> {
    match outcome(id) {
        Outcome::Refused => refused(id),
        Outcome::NoSuchValue => Got::Ok(nsv.unwrap_or(ok)),
        Outcome::Ok => Got::Ok(ok),
    }
}

fn typed_kvps(id: u64) -> Vec<TypedKeyValuePair<Value>> {
    kvps(id)
        .into_iter()
        .map(|(key, value)| TypedKeyValuePair { key, value })
        .collect()
}

/// calls whose request carries a transaction id of its own (an answer with that id is THE answer)
const UNIQUE_ID_APIS: [&str; 17] = [
    "get", "cget", "pget", "set", "cset", "publish", "delete", "pdelete", "ls", "pls", "lock", "acquire_lock", "release_lock",
    "subscribe", "psubscribe", "subscribe_ls", "spub_init",
];

#[derive(Clone, Copy, PartialEq, Eq, Debug)]
enum Unsub {
    Awaited,
    Async,
}

impl Tk {
    fn id(&mut self) -> u64 {
        let id = self.base + self.next;
        self.next += 1;
        id
    }

    fn ok_id(&mut self) -> u64 {
        loop {
            let id = self.id();
            if outcome(id) == Outcome::Ok {
                return id;
            }
        }
    }

    fn sent(&mut self, api: &'static str, kind: &'static str, id: u64, body: Value, tid: Option<u64>) {
        self.log.expected.push(ExpMsg {
            api,
            kind,
            call_id: Some(id),
            body: Some(body),
            tid,
        });
    }

    fn sent_ref(&mut self, api: &'static str, kind: &'static str, tid: u64) {
        self.log.expected.push(ExpMsg {
            api,
            kind,
            call_id: None,
            body: Some(json!({})),
            tid: Some(tid),
        });
    }

    /// compares the result of a call with the fake server's answer to that very call
    fn settle<T: PartialEq + Debug>(&mut self, api: &'static str, id: u64, got: Option<ConnectionResult<T>>, exp: Got<T>) -> bool {
        *self.log.per_api.entry(api).or_default() += 1;
        let Some(got) = got else {
            self.log.stuck = Some(format!("{api} call c{id} did not resolve within the watchdog"));
            self.log.stuck_call = Some((api, id));
            return false;
        };
        let got = classify(got);
        self.log.resolved += 1;
        if got == exp {
            return true;
        }
        self.log.problems.push((
            format!("pairing: a {api} call resolved with something else than the server's answer to that call"),
            json!({
                "api": api,
                "call_id": id,
                "answer_of_the_fake_server_to_this_call": short(&exp),
                "call_resolved_with": short(&got),
            }),
        ));
        false
    }

    /// the transaction id returned by a fire-and-forget variant
    fn settle_async(&mut self, api: &'static str, id: u64, got: Option<ConnectionResult<u64>>) -> Option<u64> {
        *self.log.per_api.entry(api).or_default() += 1;
        match got {
            None => {
                self.log.stuck = Some(format!("{api} call c{id} did not resolve within the watchdog"));
                None
            }
            Some(Ok(tid)) => {
                self.log.resolved += 1;
                Some(tid)
            }
            Some(Err(e)) => {
                self.log.problems.push((
                    format!("pairing: {api} failed although the connection is up"),
                    json!({"api": api, "call_id": id, "error": format!("{e:?}")}),
                ));
                None
            }
        }
    }

    /// reads the events of a subscription, unsubscribes, drains; every event must be the next
    /// numbered event of THIS subscription
    #[allow(clippy::too_many_arguments)]
    async fn consume<E: Debug>(
        &mut self,
        api: &'static str,
        id: u64,
        tid: u64,
        rx: &mut UnboundedReceiver<E>,
        is_expected: impl Fn(u64, &E) -> bool,
        ls: bool,
        unsub: Unsub,
    ) {
        let initial = initial_events(id);
        let mut seq = 0u64;
        let mut bad = false;
        while seq < initial {
            match guarded(rx.recv()).await {
                None => {
                    self.log.stuck = Some(format!("{api} c{id}: event #{seq} did not arrive within the watchdog"));
                    return;
                }
                Some(None) => {
                    self.log.problems.push((
                        format!("pairing: the event channel of a {api} subscription closed before the events the server sent were delivered"),
                        json!({"api": api, "call_id": id, "transaction_id": tid, "events_received": seq, "events_sent_behind_the_ack": initial}),
                    ));
                    return;
                }
                Some(Some(e)) => {
                    if !is_expected(seq, &e) && !bad {
                        bad = true;
                        self.log.problems.push((
                            format!("pairing: a {api} subscription received an event that is not its next event"),
                            json!({"api": api, "call_id": id, "transaction_id": tid, "expected_event_number": seq, "received": short(&e)}),
                        ));
                    }
                    seq += 1;
                }
            }
        }
        // unsubscribe (the receiver is still alive here)
        match (ls, unsub) {
            (false, Unsub::Awaited) => {
                let r = guarded(self.wb.unsubscribe(tid)).await;
                self.sent_ref("unsubscribe", "unsubscribe", tid);
                self.settle("unsubscribe", id, r, Got::Ok(()));
            }
            (false, Unsub::Async) => {
                let r = guarded(self.wb.unsubscribe_async(tid)).await;
                self.sent_ref("unsubscribe_async", "unsubscribe", tid);
                self.settle("unsubscribe_async", id, r, Got::Ok(tid));
            }
            (true, Unsub::Awaited) => {
                let r = guarded(self.wb.unsubscribe_ls(tid)).await;
                self.sent_ref("unsubscribe_ls", "unsubscribeLs", tid);
                self.settle("unsubscribe_ls", id, r, Got::Ok(()));
            }
            (true, Unsub::Async) => {
                let r = guarded(self.wb.unsubscribe_ls_async(tid)).await;
                self.sent_ref("unsubscribe_ls_async", "unsubscribeLs", tid);
                self.settle("unsubscribe_ls_async", id, r, Got::Ok(tid));
            }
        }
        if self.log.stuck.is_some() {
            return;
        }
        // the library dropped its sender when it processed the unsubscribe: drain to the end
        loop {
            match guarded(rx.recv()).await {
                None => {
                    self.log.stuck = Some(format!("{api} c{id}: event channel did not close after the unsubscribe"));
                    return;
                }
                Some(None) => break,
                Some(Some(e)) => {
                    if !is_expected(seq, &e) && !bad {
                        bad = true;
                        self.log.problems.push((
                            format!("pairing: a {api} subscription received an event that is not its next event"),
                            json!({"api": api, "call_id": id, "transaction_id": tid, "expected_event_number": seq, "received": short(&e)}),
                        ));
                    }
                    seq += 1;
                }
            }
        }
        self.log.events += seq;
        self.log.subs.push((tid, seq));
    }

    async fn one_call(&mut self) {
        let id = self.id();
        let key = format!("q/c{id}");
        let pattern = format!("q/c{id}/#");
        let val = json!({"v": id});
        let wb = self.wb.clone();
        match self.rng.below(34) {
            0..=2 => {
                let r = guarded(wb.get::<Value>(key.clone())).await;
                self.sent("get", "get", id, json!({"key": key}), None);
                self.settle("get", id, r, expect(id, Some(echo(id)), Some(None)));
            }
            3 => {
                let r = guarded(wb.get_async(key.clone())).await;
                if let Some(t) = self.settle_async("get_async", id, r) {
                    self.sent("get_async", "get", id, json!({"key": key}), Some(t));
                }
            }
            4 | 5 => {
                let r = guarded(wb.cget::<Value>(key.clone())).await;
                self.sent("cget", "cGet", id, json!({"key": key}), None);
                self.settle("cget", id, r, expect(id, Some((echo(id), fake::cas_version(id))), Some(None)));
            }
            6 => {
                let r = guarded(wb.cget_async(key.clone())).await;
                if let Some(t) = self.settle_async("cget_async", id, r) {
                    self.sent("cget_async", "cGet", id, json!({"key": key}), Some(t));
                }
            }
            7 | 8 => {
                let r = guarded(wb.pget::<Value>(pattern.clone())).await;
                self.sent("pget", "pGet", id, json!({"requestPattern": pattern}), None);
                self.settle("pget", id, r, expect(id, typed_kvps(id), None));
            }
            9 => {
                let r = guarded(wb.pget_async(pattern.clone())).await;
                if let Some(t) = self.settle_async("pget_async", id, r) {
                    self.sent("pget_async", "pGet", id, json!({"requestPattern": pattern}), Some(t));
                }
            }
            10 | 11 => {
                let r = guarded(wb.set(key.clone(), val.clone())).await;
                self.sent("set", "set", id, json!({"key": key, "value": val}), None);
                self.settle("set", id, r, expect(id, (), None));
            }
            12 => {
                let r = guarded(wb.set_async(key.clone(), val.clone())).await;
                if let Some(t) = self.settle_async("set_async", id, r) {
                    self.sent("set_async", "set", id, json!({"key": key, "value": val}), Some(t));
                }
            }
            13 => {
                let version = mix(id) % 5;
                let r = guarded(wb.cset(key.clone(), val.clone(), version)).await;
                self.sent("cset", "cSet", id, json!({"key": key, "value": val, "version": version}), None);
                self.settle("cset", id, r, expect(id, (), None));
            }
            14 => {
                let version = mix(id) % 5;
                let r = guarded(wb.cset_async(key.clone(), &val, version)).await;
                if let Some(t) = self.settle_async("cset_async", id, r) {
                    self.sent("cset_async", "cSet", id, json!({"key": key, "value": val, "version": version}), Some(t));
                }
            }
            15 => {
                let r = guarded(wb.publish(key.clone(), &val)).await;
                self.sent("publish", "publish", id, json!({"key": key, "value": val}), None);
                self.settle("publish", id, r, expect(id, (), None));
            }
            16 => {
                let r = guarded(wb.publish_async(key.clone(), &val)).await;
                if let Some(t) = self.settle_async("publish_async", id, r) {
                    self.sent("publish_async", "publish", id, json!({"key": key, "value": val}), Some(t));
                }
            }
            17 => {
                let r = guarded(wb.delete::<Value>(key.clone())).await;
                self.sent("delete", "delete", id, json!({"key": key}), None);
                self.settle("delete", id, r, expect(id, Some(echo(id)), Some(None)));
            }
            18 => {
                let r = guarded(wb.delete_async(key.clone())).await;
                if let Some(t) = self.settle_async("delete_async", id, r) {
                    self.sent("delete_async", "delete", id, json!({"key": key}), Some(t));
                }
            }
            19 => {
                let quiet = self.rng.chance(1, 2);
                let r = guarded(wb.pdelete::<Value>(pattern.clone(), quiet)).await;
                self.sent("pdelete", "pDelete", id, json!({"requestPattern": pattern, "quiet": quiet}), None);
                self.settle("pdelete", id, r, expect(id, typed_kvps(id), None));
            }
            20 => {
                let quiet = self.rng.chance(1, 2);
                let r = guarded(wb.pdelete_async(pattern.clone(), quiet)).await;
                if let Some(t) = self.settle_async("pdelete_async", id, r) {
                    self.sent("pdelete_async", "pDelete", id, json!({"requestPattern": pattern, "quiet": quiet}), Some(t));
                }
            }
            21 => {
                let r = guarded(wb.ls(Some(key.clone()))).await;
                self.sent("ls", "ls", id, json!({"parent": key}), None);
                self.settle("ls", id, r, expect(id, children(id), None));
            }
            22 => {
                let r = guarded(wb.pls(Some(pattern.clone()))).await;
                self.sent("pls", "pLs", id, json!({"parentPattern": pattern}), None);
                self.settle("pls", id, r, expect(id, children(id), None));
            }
            23 => {
                if self.rng.chance(1, 2) {
                    let r = guarded(wb.ls_async(Some(key.clone()))).await;
                    if let Some(t) = self.settle_async("ls_async", id, r) {
                        self.sent("ls_async", "ls", id, json!({"parent": key}), Some(t));
                    }
                } else {
                    let r = guarded(wb.pls_async(Some(pattern.clone()))).await;
                    if let Some(t) = self.settle_async("pls_async", id, r) {
                        self.sent("pls_async", "pLs", id, json!({"parentPattern": pattern}), Some(t));
                    }
                }
            }
            24 => match self.rng.below(5) {
                0 => {
                    let r = guarded(wb.lock(key.clone())).await;
                    self.sent("lock", "lock", id, json!({"key": key}), None);
                    self.settle("lock", id, r, expect(id, (), None));
                }
                1 => {
                    let r = guarded(wb.acquire_lock(key.clone())).await;
                    self.sent("acquire_lock", "acquireLock", id, json!({"key": key}), None);
                    self.settle("acquire_lock", id, r, expect(id, (), None));
                }
                2 => {
                    let r = guarded(wb.release_lock(key.clone())).await;
                    self.sent("release_lock", "releaseLock", id, json!({"key": key}), None);
                    self.settle("release_lock", id, r, expect(id, (), None));
                }
                3 => {
                    let r = guarded(wb.lock_async(key.clone())).await;
                    if let Some(t) = self.settle_async("lock_async", id, r) {
                        self.sent("lock_async", "lock", id, json!({"key": key}), Some(t));
                    }
                }
                _ => {
                    let r = guarded(wb.release_lock_async(key.clone())).await;
                    if let Some(t) = self.settle_async("release_lock_async", id, r) {
                        self.sent("release_lock_async", "releaseLock", id, json!({"key": key}), Some(t));
                    }
                }
            },
            25 | 26 => {
                // subscribe, typed
                let unique = self.rng.chance(1, 2);
                let live_only = self.rng.chance(1, 2);
                let r = guarded(wb.subscribe::<Value>(key.clone(), unique, live_only)).await;
                self.sent("subscribe", "subscribe", id, json!({"key": key, "unique": unique, "liveOnly": live_only}), None);
                *self.log.per_api.entry("subscribe").or_default() += 1;
                match r {
                    None => {
                        self.log.stuck = Some(format!("subscribe c{id} did not resolve within the watchdog"));
                        self.log.stuck_call = Some(("subscribe", id));
                    }
                    Some(r) => {
                        self.log.resolved += 1;
                        match (classify(r), outcome(id)) {
                            (Got::Server(c, m), Outcome::Refused) if c == REFUSED_CODE && m == meta(id) => {}
                            (Got::Ok((mut rx, tid)), o) if o != Outcome::Refused => {
                                self.log.expected.last_mut().expect("just pushed").tid = Some(tid);
                                let unsub = if self.rng.chance(1, 2) { Unsub::Awaited } else { Unsub::Async };
                                self.consume(
                                    "subscribe",
                                    id,
                                    tid,
                                    &mut rx,
                                    |i, e: &Option<Value>| {
                                        if event_is_delete(i) { e.is_none() } else { e.as_ref() == Some(&event_value(id, i)) }
                                    },
                                    false,
                                    unsub,
                                )
                                .await;
                            }
                            (other, o) => self.log.problems.push((
                                "pairing: a subscribe call resolved with something else than the server's answer to that call".to_owned(),
                                json!({"api": "subscribe", "call_id": id, "outcome_of_the_fake_server": format!("{o:?}"), "call_resolved_with": short(&other.map_debug())}),
                            )),
                        }
                    }
                }
            }
            27 | 28 => {
                let unique = self.rng.chance(1, 2);
                let live_only = self.rng.chance(1, 2);
                let agg = if self.rng.chance(1, 3) { Some(Duration::from_millis(self.rng.range(1, 50) as u64)) } else { None };
                let r = guarded(wb.psubscribe::<Value>(pattern.clone(), unique, live_only, agg)).await;
                let mut body = json!({"requestPattern": pattern, "unique": unique, "liveOnly": live_only});
                if let Some(a) = agg {
                    body["aggregateEvents"] = json!(a.as_millis() as u64);
                }
                self.sent("psubscribe", "pSubscribe", id, body, None);
                *self.log.per_api.entry("psubscribe").or_default() += 1;
                match r {
                    None => {
                        self.log.stuck = Some(format!("psubscribe c{id} did not resolve within the watchdog"));
                        self.log.stuck_call = Some(("psubscribe", id));
                    }
                    Some(r) => {
                        self.log.resolved += 1;
                        match (classify(r), outcome(id)) {
                            (Got::Server(c, m), Outcome::Refused) if c == REFUSED_CODE && m == meta(id) => {}
                            (Got::Ok((mut rx, tid)), o) if o != Outcome::Refused => {
                                self.log.expected.last_mut().expect("just pushed").tid = Some(tid);
                                let unsub = if self.rng.chance(1, 2) { Unsub::Awaited } else { Unsub::Async };
                                self.consume(
                                    "psubscribe",
                                    id,
                                    tid,
                                    &mut rx,
                                    |i, e: &TypedPStateEvent<Value>| {
                                        let kv = vec![TypedKeyValuePair {
                                            key: event_key(id),
                                            value: event_value(id, i),
                                        }];
                                        if event_is_delete(i) {
                                            *e == TypedPStateEvent::Deleted(kv)
                                        } else {
                                            *e == TypedPStateEvent::KeyValuePairs(kv)
                                        }
                                    },
                                    false,
                                    unsub,
                                )
                                .await;
                            }
                            (other, o) => self.log.problems.push((
                                "pairing: a psubscribe call resolved with something else than the server's answer to that call".to_owned(),
                                json!({"api": "psubscribe", "call_id": id, "outcome_of_the_fake_server": format!("{o:?}"), "call_resolved_with": short(&other.map_debug())}),
                            )),
                        }
                    }
                }
            }
            29 | 30 => {
                let r = guarded(wb.subscribe_ls(Some(key.clone()))).await;
                self.sent("subscribe_ls", "subscribeLs", id, json!({"parent": key}), None);
                *self.log.per_api.entry("subscribe_ls").or_default() += 1;
                match r {
                    None => {
                        self.log.stuck = Some(format!("subscribe_ls c{id} did not resolve within the watchdog"));
                        self.log.stuck_call = Some(("subscribe_ls", id));
                    }
                    Some(r) => {
                        self.log.resolved += 1;
                        match (classify(r), outcome(id)) {
                            (Got::Server(c, m), Outcome::Refused) if c == REFUSED_CODE && m == meta(id) => {}
                            (Got::Ok((mut rx, tid)), o) if o != Outcome::Refused => {
                                self.log.expected.last_mut().expect("just pushed").tid = Some(tid);
                                let unsub = if self.rng.chance(1, 2) { Unsub::Awaited } else { Unsub::Async };
                                self.consume("subscribe_ls", id, tid, &mut rx, |i, e: &Vec<String>| *e == ls_event(id, i), true, unsub)
                                    .await;
                            }
                            (other, o) => self.log.problems.push((
                                "pairing: a subscribe_ls call resolved with something else than the server's answer to that call".to_owned(),
                                json!({"api": "subscribe_ls", "call_id": id, "outcome_of_the_fake_server": format!("{o:?}"), "call_resolved_with": short(&other.map_debug())}),
                            )),
                        }
                    }
                }
            }
            31 => {
                // fire-and-forget subscriptions: only what is sent can be observed
                let unique = self.rng.chance(1, 2);
                let live_only = self.rng.chance(1, 2);
                match self.rng.below(3) {
                    0 => {
                        let r = guarded(wb.subscribe_async(key.clone(), unique, live_only)).await;
                        if let Some(t) = self.settle_async("subscribe_async", id, r) {
                            self.sent("subscribe_async", "subscribe", id, json!({"key": key, "unique": unique, "liveOnly": live_only}), Some(t));
                            let r = guarded(wb.unsubscribe_async(t)).await;
                            self.sent_ref("unsubscribe_async", "unsubscribe", t);
                            self.settle("unsubscribe_async", id, r, Got::Ok(t));
                        }
                    }
                    1 => {
                        let r = guarded(wb.psubscribe_async(pattern.clone(), unique, live_only, Some(Duration::from_millis(7)))).await;
                        if let Some(t) = self.settle_async("psubscribe_async", id, r) {
                            self.sent(
                                "psubscribe_async",
                                "pSubscribe",
                                id,
                                json!({"requestPattern": pattern, "unique": unique, "liveOnly": live_only, "aggregateEvents": 7}),
                                Some(t),
                            );
                            // (an awaited unsubscribe here could be resolved by the answer to the
                            // subscription itself, which carries the same transaction id)
                            let r = guarded(wb.unsubscribe_async(t)).await;
                            self.sent_ref("unsubscribe_async", "unsubscribe", t);
                            self.settle("unsubscribe_async", id, r, Got::Ok(t));
                        }
                    }
                    _ => {
                        let r = guarded(wb.subscribe_ls_async(Some(key.clone()))).await;
                        if let Some(t) = self.settle_async("subscribe_ls_async", id, r) {
                            self.sent("subscribe_ls_async", "subscribeLs", id, json!({"parent": key}), Some(t));
                            let r = guarded(wb.unsubscribe_ls_async(t)).await;
                            self.sent_ref("unsubscribe_ls_async", "unsubscribeLs", t);
                            self.settle("unsubscribe_ls_async", id, r, Got::Ok(t));
                        }
                    }
                }
            }
            _ => {
                // a publish stream of this task: spub_init, then numbered values one after the other
                let r = guarded(wb.spub_init(key.clone())).await;
                self.sent("spub_init", "sPubInit", id, json!({"key": key}), None);
                *self.log.per_api.entry("spub_init").or_default() += 1;
                match r {
                    None => {
                        self.log.stuck = Some(format!("spub_init c{id} did not resolve within the watchdog"));
                        self.log.stuck_call = Some(("spub_init", id));
                    }
                    Some(r) => {
                        self.log.resolved += 1;
                        match (classify(r), outcome(id)) {
                            (Got::Server(c, m), Outcome::Refused) if c == REFUSED_CODE && m == meta(id) => {}
                            (Got::Ok(stream), o) if o != Outcome::Refused => {
                                self.log.expected.last_mut().expect("just pushed").tid = Some(stream);
                                // the answers to sPub carry the stream's id, not one of their own: a
                                // stream is used either with awaited calls (one after the other) or
                                // fire-and-forget, never both
                                let fire_and_forget = self.rng.chance(1, 4);
                                for _ in 0..self.rng.range(1, 3) {
                                    let vid = self.id();
                                    let v = json!({"c": vid});
                                    if fire_and_forget {
                                        let r = guarded(wb.spub_async(stream, &v)).await;
                                        if let Some(t) = self.settle_async("spub_async", vid, r) {
                                            self.sent("spub_async", "sPub", vid, json!({"value": v}), Some(stream));
                                            if t != stream {
                                                self.log.problems.push((
                                                    "pairing: spub_async returned another transaction id than the stream's".to_owned(),
                                                    json!({"stream": stream, "returned": t}),
                                                ));
                                            }
                                        }
                                    } else {
                                        let r = guarded(wb.spub(stream, &v)).await;
                                        self.sent("spub", "sPub", vid, json!({"value": v}), Some(stream));
                                        self.settle("spub", vid, r, expect(vid, (), None));
                                    }
                                }
                            }
                            (other, o) => self.log.problems.push((
                                "pairing: a spub_init call resolved with something else than the server's answer to that call".to_owned(),
                                json!({"api": "spub_init", "call_id": id, "outcome_of_the_fake_server": format!("{o:?}"), "call_resolved_with": short(&other)}),
                            )),
                        }
                    }
                }
            }
        }
    }
}

/// Debug rendering of a Got whose payload has no PartialEq/Debug of its own (receivers)
trait MapDebug {
    fn map_debug(self) -> Got<String>;
}

impl<E, X: Debug> MapDebug for Got<(UnboundedReceiver<E>, X)> {
    fn map_debug(self) -> Got<String> {
        match self {
            Got::Ok((_, x)) => Got::Ok(format!("subscription with transaction id {x:?}")),
            Got::Server(c, m) => Got::Server(c, m),
            Got::Serde(s) => Got::Serde(s),
            Got::Timeout(s) => Got::Timeout(s),
            Got::Other(s) => Got::Other(s),
        }
    }
}

async fn task(wb: Worterbuch, base: u64, rng: Rng, calls: usize) -> TaskLog {
    let mut tk = Tk {
        wb,
        base,
        next: 0,
        rng,
        log: TaskLog::default(),
    };
    for _ in 0..calls {
        if tk.log.stuck.is_some() {
            break;
        }
        tk.one_call().await;
    }
    tk.log
}

/// several tasks publish concurrently on ONE stream; the fake server acks every one of them
async fn shared_stream_group(wb: Worterbuch, base: u64, mut rng: Rng, open: Open) -> TaskLog {
    let mut tk = Tk {
        wb: wb.clone(),
        base,
        next: 0,
        rng: rng.fork(1),
        log: TaskLog::default(),
    };
    let id = tk.ok_id();
    let key = format!("q/c{id}");
    let r = guarded(wb.spub_init(key.clone())).await;
    tk.sent("spub_init", "sPubInit", id, json!({"key": key}), None);
    let stream = match r {
        Some(Ok(t)) => t,
        Some(Err(e)) => {
            tk.log.problems.push((
                "pairing: a spub_init call resolved with something else than the server's answer to that call".to_owned(),
                json!({"call_id": id, "expected": "ack", "call_resolved_with": format!("{e:?}")}),
            ));
            return tk.log;
        }
        None => {
            tk.log.stuck = Some("spub_init of the shared stream did not resolve".to_owned());
            return tk.log;
        }
    };
    tk.log.resolved += 1;
    tk.log.expected.last_mut().expect("just pushed").tid = Some(stream);
    let publishers = rng.range(2, 4);
    let mut ids: Vec<Vec<u64>> = Vec::new();
    for _ in 0..publishers {
        let n = rng.range(2, 4);
        ids.push((0..n).map(|_| tk.ok_id()).collect());
    }
    let mut handles = Vec::new();
    for my_ids in ids.clone() {
        let wb = wb.clone();
        handles.push(tokio::spawn(async move {
            let mut out = Vec::new();
            for vid in my_ids {
                let r = guarded(wb.spub(stream, &json!({"c": vid}))).await;
                out.push((vid, r.map(classify)));
            }
            out
        }));
    }
    let mut dropped = Vec::new();
    for h in handles {
        let Ok(results) = h.await else {
            tk.log.stuck = Some("a publisher task of the shared stream failed".to_owned());
            return tk.log;
        };
        for (vid, r) in results {
            tk.sent("spub", "sPub", vid, json!({"value": {"c": vid}}), Some(stream));
            *tk.log.per_api.entry("spub (shared stream)").or_default() += 1;
            match r {
                None => tk.log.stuck = Some(format!("spub c{vid} on the shared stream did not resolve")),
                Some(Got::Ok(())) => tk.log.resolved += 1,
                Some(other) => {
                    tk.log.resolved += 1;
                    dropped.push(json!({"call_id": vid, "call_resolved_with": short(&other)}));
                }
            }
        }
    }
    if !dropped.is_empty() {
        // recorded deviation of FC20-3: calls on one stream that are in flight together lose
        // their callbacks (RecvError) although the server acknowledged every one of them
        let all_callback_losses = dropped.iter().all(|d| d["call_resolved_with"].as_str().is_some_and(|s| s.contains("RecvError")));
        if open.spub_concurrent && all_callback_losses {
            tk.log.known.push(F_SPUB_CONCURRENT);
        } else {
            tk.log.problems.push((
                "pairing: concurrent spub calls on one stream did not all resolve with the server's ack".to_owned(),
                json!({"stream_transaction_id": stream, "publishers": publishers, "every_spub_was_acked_by_the_fake_server": true, "calls_that_did_not_resolve_with_ok": dropped}),
            ));
        }
    }
    tk.log
}

fn strip_nulls(v: &Value) -> Value {
    match v {
        Value::Object(o) => Value::Object(o.iter().filter(|(_, v)| !v.is_null()).map(|(k, v)| (k.clone(), strip_nulls(v))).collect()),
        Value::Array(a) => Value::Array(a.iter().map(strip_nulls).collect()),
        other => other.clone(),
    }
}

/// matches what the fake server received against what the calls must have sent
fn match_messages(log: &FakeLog, expected: &[ExpMsg], open: Open, rep: &mut Report) {
    let mut used = vec![false; log.received.len()];
    let mut unsub_kinds: BTreeMap<String, u64> = BTreeMap::new();
    for e in expected {
        let found = log.received.iter().enumerate().position(|(i, r)| {
            !used[i]
                && r.kind == e.kind
                && r.call_id == e.call_id
                && (e.tid.is_none() || r.tid == e.tid)
                && e.body.as_ref().is_none_or(|b| strip_nulls(&r.body) == strip_nulls(b))
        });
        if let Some(i) = found {
            used[i] = true;
            if e.call_id.is_none() {
                *unsub_kinds.entry(format!("{} -> {}", e.api, e.kind)).or_default() += 1;
            }
            continue;
        }
        // FC20-1: unsubscribe_ls_async sends `unsubscribe` with the ls-subscription's id
        if e.api == "unsubscribe_ls_async" && e.kind == "unsubscribeLs" {
            let wrong = log
                .received
                .iter()
                .enumerate()
                .position(|(i, r)| !used[i] && r.kind == "unsubscribe" && r.tid == e.tid && r.call_id.is_none());
            if let Some(i) = wrong {
                used[i] = true;
                *unsub_kinds.entry("unsubscribe_ls_async -> unsubscribe".to_owned()).or_default() += 1;
                if open.unsub_ls_async {
                    rep.known(F_UNSUB_LS_ASYNC);
                } else {
                    rep.violation(
                        "sent: unsubscribe_ls_async made the library send `unsubscribe` instead of `unsubscribeLs`",
                        json!({"call": "unsubscribe_ls_async", "transaction_id_of_the_ls_subscription": e.tid,
                               "expected_message": {"unsubscribeLs": {"transactionId": e.tid}},
                               "message_received_by_the_fake_server": {"unsubscribe": {"transactionId": e.tid}}}),
                    );
                }
                continue;
            }
        }
        let candidates: Vec<Value> = log
            .received
            .iter()
            .filter(|r| (e.call_id.is_some() && r.call_id == e.call_id) || (e.call_id.is_none() && r.tid == e.tid))
            .map(|r| json!({"kind": r.kind, "transactionId": r.tid, "body": r.body}))
            .collect();
        rep.violation(
            format!("sent: the message of a {} call did not reach the server as handed in", e.api),
            json!({"api": e.api, "expected_kind": e.kind, "expected_body": e.body, "expected_transaction_id": e.tid,
                   "call_id": e.call_id, "messages_received_for_this_call": candidates}),
        );
    }
    for (i, r) in log.received.iter().enumerate() {
        if !used[i] {
            rep.violation(
                "sent: the library sent a message that no call handed in",
                json!({"kind": r.kind, "transactionId": r.tid, "body": r.body}),
            );
        }
    }
    for (k, n) in unsub_kinds {
        rep.count(&format!("fake_server_saw: {k}"), n);
    }
}

pub async fn run_one(scratch: &Path, idx: usize, rng: Rng, p: PairingParams, open: Open) -> Report {
    let mut rep = Report::default();
    let mut rng = rng;
    let opts = FakeOptions {
        max_batch: rng.range(2, p.tasks.max(2)),
        idle_flush: Duration::from_micros(rng.range(300, 3000) as u64),
        max_delay_us: *rng.pick(&[0u64, 100, 400, 1500]),
        extra_event_chance: 2,
        in_order: false,
    };
    let path = if p.tcp { None } else { Some(scratch.join(format!("p{idx}.sock"))) };
    let fake = match Fake::start(path, opts.clone(), rng.fork(1)).await {
        Ok(f) => f,
        Err(e) => {
            rep.inconclusive(format!("fake server: {e}"));
            return rep;
        }
    };
    let wb = match guarded(worterbuch_client::connect(fake.client_config())).await {
        Some(Ok((wb, _on_disconnect))) => wb,
        other => {
            rep.inconclusive(format!("connect to the fake server: {:?}", other.map(|r| r.map(|_| ()))));
            return rep;
        }
    };
    let Some(Ok(mut tap)) = guarded(wb.all_messages()).await else {
        rep.inconclusive("all_messages tap could not be registered");
        return rep;
    };

    let mut handles = Vec::new();
    for t in 0..p.tasks {
        handles.push(tokio::spawn(task(wb.clone(), (t as u64 + 1) * 100_000, rng.fork(100 + t as u64), p.calls_per_task)));
    }
    if p.shared_stream {
        handles.push(tokio::spawn(shared_stream_group(wb.clone(), 90_000_000, rng.fork(7), open)));
    }
    let mut expected = Vec::new();
    let mut subs = Vec::new();
    let mut stuck_calls: Vec<((&'static str, u64), String)> = Vec::new();
    let mut per_api: BTreeMap<&'static str, u64> = BTreeMap::new();
    for h in handles {
        match h.await {
            Ok(log) => {
                if let Some(s) = log.stuck {
                    match log.stuck_call {
                        Some(c) if UNIQUE_ID_APIS.contains(&c.0) => stuck_calls.push((c, s)),
                        _ => rep.inconclusive(s),
                    }
                }
                for (sig, d) in log.problems {
                    rep.violation(sig, d);
                }
                for k in log.known {
                    rep.known(k);
                }
                rep.count("pairing_calls_resolved", log.resolved);
                rep.count("pairing_subscription_events_delivered_in_order", log.events);
                expected.extend(log.expected);
                subs.extend(log.subs);
                for (k, n) in log.per_api {
                    *per_api.entry(k).or_default() += n;
                }
            }
            Err(e) => rep.inconclusive(format!("client task failed: {e}")),
        }
    }
    if guarded(wb.close()).await.is_none() {
        rep.inconclusive("close did not return");
    }
    drop(wb);
    let log = match fake.finish(Duration::from_secs(30)).await {
        Ok(l) => l,
        Err(e) => {
            rep.inconclusive(e);
            return rep;
        }
    };
    let mut tapped = Vec::new();
    while let Ok(m) = tap.try_recv() {
        tapped.push(serde_json::to_value(&m).unwrap_or(Value::Null));
    }
    // a call that did not resolve within the watchdog: if the library's own tap shows that the
    // answer to its request arrived, the call was lost inside the library; otherwise nothing can
    // be said
    for ((api, id), why) in stuck_calls {
        let tid = log.received.iter().find(|r| r.call_id == Some(id)).and_then(|r| r.tid);
        let answer = tid.and_then(|t| {
            tapped
                .iter()
                .find(|m| m.as_object().and_then(|o| o.values().next()).and_then(|b| b.get("transactionId")).and_then(Value::as_u64) == Some(t))
        });
        match answer {
            Some(a) => rep.violation(
                format!("pairing: the answer to a {api} call reached the library but the call never resolved"),
                json!({"api": api, "call_id": id, "transaction_id": tid, "answer_seen_by_the_all_messages_tap": a,
                       "call": format!("still pending after {} s", crate::checks::c20_util::WATCHDOG.as_secs())}),
            ),
            None => rep.inconclusive(why),
        }
    }
    if !rep.inconclusive.is_empty() {
        return rep;
    }

    // ---- what the library sent ---------------------------------------------------------
    for e in &log.protocol_errors {
        rep.violation(
            "sent: the fake server received something that is not a well-formed fresh request",
            json!({"problem": e}),
        );
    }
    if log.handshake.len() != 1 {
        rep.violation("sent: unexpected handshake", json!({"handshake": log.handshake}));
    }
    match_messages(&log, &expected, open, &mut rep);
    let mut by_kind: BTreeMap<String, u64> = BTreeMap::new();
    for r in &log.received {
        *by_kind.entry(r.kind.clone()).or_default() += 1;
    }
    for (k, n) in &by_kind {
        rep.count(&format!("fake_server_received_{k}"), *n);
    }
    for (k, n) in &per_api {
        rep.count(&format!("api_calls_{k}"), *n);
    }

    // ---- subscriptions: never more events than were written ------------------------------
    for (tid, got) in &subs {
        let sent = log.events_sent.get(tid).copied().unwrap_or(0);
        if *got > sent {
            rep.violation(
                "pairing: a subscription received more events than the server sent for it",
                json!({"transaction_id": tid, "received": got, "sent": sent}),
            );
        }
    }

    // ---- the all_messages tap: exactly what the server wrote, in that order ----------------
    rep.count("tap_messages", tapped.len() as u64);
    if tapped.len() > log.sent.len() {
        rep.violation(
            "tap: all_messages delivered more messages than the server sent",
            json!({"tapped": tapped.len(), "sent": log.sent.len()}),
        );
    } else if let Some(i) = (0..tapped.len()).find(|i| strip_nulls(&tapped[*i]) != strip_nulls(&log.sent[*i])) {
        rep.violation(
            "tap: all_messages does not show the messages the server sent, in the order sent",
            json!({"position": i, "server_sent": log.sent[i], "tap_delivered": tapped[i]}),
        );
    }

    rep.count("pairing_batches", log.batches.len() as u64);
    rep.count("pairing_batches_answered_out_of_arrival_order", log.reordered_batches() as u64);
    rep.count("pairing_runs_tcp", p.tcp as u64);
    rep.count("pairing_runs_unix", !p.tcp as u64);
    let reordered = log.reordered_batches();
    if log.max_in_flight >= 4 && reordered >= 1 {
        rep.nontrivial = Some(log.permutation_hash());
    }
    if idx < 2 {
        let first: Vec<Value> = log
            .batches
            .iter()
            .filter(|(a, b)| a != b)
            .take(2)
            .map(|(a, b)| json!({"transaction_ids_in_arrival_order": a, "answered_in_order": b}))
            .collect();
        rep.sample = Some(json!({
            "monitor": "pairing (fake server)",
            "transport": if p.tcp { "tcp" } else { "unix" },
            "tasks_on_cloned_handles": p.tasks,
            "calls_resolved": rep.counters.get("pairing_calls_resolved"),
            "messages_received_by_kind": by_kind,
            "batches": log.batches.len(),
            "max_requests_in_one_batch": log.max_in_flight,
            "example_batches": first,
            "fake_server_options": format!("{opts:?}"),
        }));
    }
    rep
}
