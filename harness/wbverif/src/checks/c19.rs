//! C19 A node takes the leader role only with a quorum of distinct peers' votes.
//!
//! Process driver (DESIGN.md section 4, C19): the real orchestrator binary built from /repo's
//! current tree, one child process per scenario, a stub `worterbuch` executable, all other nodes
//! scripted by `c19_run`. SAFETY ONLY: the oracle below never asks for a start to happen, and it
//! only uses the order of events that is certain under any scheduling:
//!
//! * admissible sends for a stub start = sends whose marker precedes the STUB line in the shared
//!   O_APPEND log (superset of what the node can have received before it decided to start);
//! * a vote sent after the harness had received the k-th vote request can only be counted in a
//!   round >= k (`lo`);
//! * a vote sent before a vote request of configured peer X that the node ANSWERED (its vote
//!   arrives on X's socket) was consumed by the node before that answer; the number of the node's
//!   vote requests that arrived on X's socket before the answer bounds the round in which the vote
//!   can have been counted (`hi`); UDP sockets are FIFO per receiver. Same for answered heartbeats.
//!
//! A `--leader` start is refuted iff for no round j there are quorum-1 distinct configured peers
//! with an admissible vote whose [lo, hi] contains j. A `--follower --leader-address A` start is
//! refuted iff A is not the sync address of a configured peer in whose name an admissible heartbeat
//! request was sent.

use super::c19_run::{
    Class, Event, Expect, HbWhen, HbWho, Kind, NODE_ID, Outcome, Scenario, Start, heartbeat_min_timeout_ms,
    run_scenario, scenario_dir, unknown_ids,
};
use crate::{
    Ctx, cleanup_scratch,
    core::par_shards,
    evidence::{Evidence, Tier},
    rng::{Rng, hash_str},
};
use serde_json::{Value, json};
use std::{
    collections::{BTreeMap, BTreeSet},
    path::{Path, PathBuf},
    process::Command,
};

const FINDING_ID: &str = "";

// ---------------------------------------------------------------------------------------------
// building the orchestrator from /repo's current tree
// ---------------------------------------------------------------------------------------------

fn build_orchestrator(scratch: &Path) -> Result<PathBuf, String> {
    let manifest = std::env::var("VERIF_REPO_MANIFEST").unwrap_or_else(|_| "/repo/Cargo.toml".into());
    let target = std::env::var("VERIF_TARGET_BIN").unwrap_or_else(|_| "/verif/target-bin".into());
    let out = Command::new("cargo")
        .args(["build", "--offline", "--manifest-path", &manifest])
        .args(["-p", "worterbuch-cluster-orchestrator", "--no-default-features"])
        .args(["--target-dir", &target])
        .output()
        .map_err(|e| format!("cannot run cargo: {e}"))?;
    if !out.status.success() {
        let err = String::from_utf8_lossy(&out.stderr);
        let tail: String = err.lines().rev().take(30).collect::<Vec<_>>().into_iter().rev().collect::<Vec<_>>().join("\n");
        return Err(format!("cargo build of the orchestrator failed:\n{tail}"));
    }
    let built = Path::new(&target).join("debug").join("worterbuch-cluster-orchestrator");
    // private copy: a concurrent rebuild by another check must not change the binary under our feet
    let copy = scratch.join("orchestrator");
    std::fs::copy(&built, &copy).map_err(|e| format!("cannot copy {}: {e}", built.display()))?;
    Ok(copy)
}

// ---------------------------------------------------------------------------------------------
// the oracle
// ---------------------------------------------------------------------------------------------

#[derive(Debug, Clone)]
struct VoteSent {
    seq: u64,
    peer: usize,
    lo: usize,
    hi: usize,
}

#[derive(Debug, Default, Clone)]
pub struct Judged {
    pub violations: Vec<(String, Value)>,
    pub leader_starts: u64,
    pub follower_starts: u64,
    /// per leader start: (distinct admissible configured voters in the best round, needed)
    pub leader_margin: Vec<(usize, usize)>,
    pub fences: u64,
    pub fences_before_round_1: u64,
    pub votes_fenced_out: u64,
}

fn peer_index(id: &str, n_peers: usize) -> Option<usize> {
    (0..n_peers).find(|i| Scenario::peer_id(*i) == id)
}

/// fences: (seq before which every send is consumed, highest round in which those can have counted)
fn fences(events: &[Event], n_peers: usize) -> Vec<(u64, usize)> {
    let mut out = Vec::new();
    for x in 0..n_peers {
        let xid = Scenario::peer_id(x);
        for (req_kind, resp_kind) in [(Kind::VoteReq, Kind::VoteResp), (Kind::HbReq, Kind::HbResp)] {
            // requests in the name of X (from any socket), in send order
            let probes: Vec<u64> = events
                .iter()
                .filter(|e| e.dir == "out" && e.kind == Some(req_kind) && e.id == xid)
                .map(|e| e.seq)
                .collect();
            let mut answers = 0usize;
            let mut requests_on_x = 0usize;
            for e in events.iter().filter(|e| e.dir == "in" && e.sock_peer == Some(x) && e.note.is_empty()) {
                if e.id != NODE_ID {
                    continue;
                }
                if e.kind == Some(Kind::VoteReq) {
                    requests_on_x += 1;
                } else if e.kind == Some(resp_kind) {
                    // the m-th answer was caused by the m-th or a later request sent before it
                    if let Some(p) = probes.get(answers)
                        && *p < e.seq
                    {
                        out.push((*p, requests_on_x));
                    }
                    answers += 1;
                }
            }
        }
    }
    out
}

pub fn judge(scn: &Scenario, o: &Outcome) -> Judged {
    let mut j = Judged::default();
    let n_peers = scn.n - 1;
    let need = scn.need();
    let fences = fences(&o.events, n_peers);
    j.fences = fences.len() as u64;
    j.fences_before_round_1 = fences.iter().filter(|f| f.1 == 0).count() as u64;

    // votes sent in the name of configured peers, with the rounds in which they can have counted
    let mut req_seen = vec![0usize; n_peers];
    let mut votes: Vec<VoteSent> = Vec::new();
    let mut heartbeats: Vec<(u64, usize)> = Vec::new();
    for e in &o.events {
        match e.dir {
            "in" => {
                if e.kind == Some(Kind::VoteReq)
                    && e.id == NODE_ID
                    && e.note.is_empty()
                    && let Some(p) = e.sock_peer
                {
                    req_seen[p] += 1;
                }
            }
            "out" => {
                if let Some(p) = peer_index(&e.id, n_peers) {
                    if e.kind == Some(Kind::VoteResp) {
                        let lo = req_seen.iter().copied().max().unwrap_or(0);
                        let hi = fences.iter().filter(|f| f.0 > e.seq).map(|f| f.1).min().unwrap_or(usize::MAX);
                        votes.push(VoteSent { seq: e.seq, peer: p, lo, hi });
                    } else if e.kind == Some(Kind::HbReq) {
                        heartbeats.push((e.seq, p));
                    }
                }
            }
            _ => {}
        }
    }
    j.votes_fenced_out = votes.iter().filter(|v| v.hi < v.lo.max(1)).count() as u64;

    let witness = |what: &str, start: &Start, extra: Value| -> Value {
        json!({
            "what": what,
            "scenario": scn,
            "quorum_in_effect": scn.quorum(),
            "distinct_peer_votes_needed": need,
            "stub_argv": start.argv,
            "admissible_sends_up_to_seq": start.cut,
            "analysis": extra,
            "cluster_yaml": o.yaml,
            "events": o.events,
            "events_log_file": o.file_log,
            "node_stderr_tail": o.err_tail,
        })
    };

    for start in &o.starts {
        let leader = start.argv.iter().any(|a| a == "--leader");
        let follower = start.argv.iter().any(|a| a == "--follower");
        if leader == follower {
            j.violations.push((
                "C19: server started in neither/both leader and follower mode".into(),
                witness("stub argv has neither or both of --leader / --follower", start, json!(null)),
            ));
            continue;
        }
        if leader {
            j.leader_starts += 1;
            let adm: Vec<&VoteSent> = votes.iter().filter(|v| v.seq <= start.cut).collect();
            let mut best = 0usize;
            let mut best_round = 0usize;
            let mut candidates: BTreeSet<usize> = adm.iter().map(|v| v.lo.max(1)).collect();
            candidates.insert(1);
            for r in candidates {
                let voters: BTreeSet<usize> =
                    adm.iter().filter(|v| v.lo.max(1) <= r && r <= v.hi).map(|v| v.peer).collect();
                if voters.len() > best {
                    best = voters.len();
                    best_round = r;
                }
            }
            j.leader_margin.push((best, need));
            if best < need {
                let ever: BTreeSet<usize> = adm.iter().map(|v| v.peer).collect();
                let sig = if ever.len() < need {
                    format!(
                        "C19: started --leader with votes of fewer than quorum-1 distinct configured peers (class {})",
                        scn.class.kind()
                    )
                } else {
                    format!(
                        "C19: started --leader although no single election round had quorum-1 distinct configured voters (class {})",
                        scn.class.kind()
                    )
                };
                j.violations.push((
                    sig,
                    witness(
                        "leader start without a quorum of distinct configured peers' votes in one round",
                        start,
                        json!({
                            "distinct_configured_voters_ever_admissible": ever.len(),
                            "best_round": best_round,
                            "distinct_configured_voters_in_best_round": best,
                            "needed": need,
                            "admissible_votes": adm.iter().map(|v| json!({"seq": v.seq, "peer": Scenario::peer_id(v.peer), "earliest_round": v.lo.max(1), "latest_round": if v.hi == usize::MAX { json!("unbounded") } else { json!(v.hi) }})).collect::<Vec<_>>(),
                        }),
                    ),
                ));
            }
            // the rest of the argv
            let expected = vec![
                "--leader".to_owned(),
                "--sync-port".to_owned(),
                Scenario::NODE_SYNC_PORT.to_string(),
                "--instance-name".to_owned(),
                NODE_ID.to_owned(),
            ];
            if start.argv != expected {
                j.violations.push((
                    "C19: leader started with unexpected arguments".into(),
                    witness("argv differs from --leader --sync-port <own sync port> --instance-name <own id>", start, json!({"expected": expected})),
                ));
            }
        } else {
            j.follower_starts += 1;
            let addr = start
                .argv
                .iter()
                .position(|a| a == "--leader-address")
                .and_then(|p| start.argv.get(p + 1))
                .cloned()
                .unwrap_or_default();
            let announced: BTreeSet<usize> =
                heartbeats.iter().filter(|(seq, _)| *seq <= start.cut).map(|(_, p)| *p).collect();
            let ok = announced
                .iter()
                .any(|p| addr == format!("127.0.0.1:{}", Scenario::sync_port_of_peer(*p)));
            if !ok {
                j.violations.push((
                    format!(
                        "C19: started --follower towards an address that is not the sync address of a configured peer that announced itself as leader (class {})",
                        scn.class.kind()
                    ),
                    witness(
                        "follower start towards a node that never sent a heartbeat request / is not configured",
                        start,
                        json!({
                            "leader_address": addr,
                            "configured_peers_that_announced_themselves": announced.iter().map(|p| json!({"peer": Scenario::peer_id(*p), "sync_address": format!("127.0.0.1:{}", Scenario::sync_port_of_peer(*p))})).collect::<Vec<_>>(),
                        }),
                    ),
                ));
            }
        }
    }
    j
}

// ---------------------------------------------------------------------------------------------
// scenario generation
// ---------------------------------------------------------------------------------------------

const KINDS: &[&str] = &[
    "silent",
    "all_vote",
    "exactly_quorum_minus_1_voters",
    "exactly_quorum_minus_2_voters",
    "duplicate_votes",
    "late_votes_delayed",
    "unknown_ids",
    "unsolicited_fenced",
    "unsolicited_flood",
    "late_votes_split_rounds_fenced",
    "candidate_higher_hb",
    "candidate_higher_nohb",
    "candidate_equal_hb",
    "candidate_equal_nohb",
    "candidate_lower_hb",
    "candidate_lower_nohb",
    "candidate_higher_hb_nonmember",
    "candidate_higher_hb_other_peer",
    "nonmember_heartbeats",
    "malformed",
    "mixed",
];

fn applicable(kind: &str, n: usize, need: usize) -> bool {
    let peers = n - 1;
    match kind {
        "silent" | "nonmember_heartbeats" | "malformed" => true,
        "all_vote" | "mixed" => peers >= 1,
        "exactly_quorum_minus_1_voters" | "late_votes_delayed" | "unknown_ids" | "unsolicited_fenced"
        | "unsolicited_flood" => peers >= 1 && need >= 1,
        "exactly_quorum_minus_2_voters" | "duplicate_votes" | "late_votes_split_rounds_fenced" => need >= 2,
        "candidate_higher_hb_other_peer" => peers >= 2,
        k if k.starts_with("candidate_") => peers >= 1,
        _ => false,
    }
}

fn subset(rng: &mut Rng, peers: usize, k: usize) -> Vec<usize> {
    let mut all: Vec<usize> = (0..peers).collect();
    rng.shuffle(&mut all);
    all.truncate(k);
    all.sort();
    all
}

fn make_scenario(kind: &str, n: usize, quorum_cfg: Option<usize>, seed: u64, tier: Tier) -> Scenario {
    let mut rng = Rng::new(seed);
    let peers = n - 1;
    let quorum = quorum_cfg.unwrap_or(n / 2 + 1);
    let need = quorum.saturating_sub(1);
    let node_prio = if rng.chance(4, 5) { Some(100 + rng.below(50) as i64) } else { None };
    let my = node_prio.unwrap_or(i64::MAX);
    let rounds = tier.pick(2, 2 + rng.below(2)) + usize::from(need >= 2 && rng.chance(1, 3));
    // lower numeric value = higher priority
    let higher = my.saturating_sub(1 + rng.below(90) as i64);
    let lower = my.saturating_add(1 + rng.below(90) as i64);
    let node_pos = rng.below(n);
    let t = heartbeat_min_timeout_ms();
    let (class, expect) = match kind {
        "silent" => (Class::Silent, if need == 0 { Expect::Leader } else { Expect::NoStart }),
        "all_vote" => (
            Class::Voters {
                label: kind.into(),
                voters: (0..peers).collect(),
                copies: 1,
                delay_ms: None,
                answer_heartbeats: rng.chance(1, 2),
                linger_ms: *rng.pick(&[40, 40, 300, 700]),
            },
            Expect::Leader,
        ),
        "exactly_quorum_minus_1_voters" => (
            Class::Voters {
                label: kind.into(),
                voters: subset(&mut rng, peers, need),
                copies: 1,
                delay_ms: None,
                answer_heartbeats: rng.chance(1, 2),
                linger_ms: *rng.pick(&[40, 40, 400]),
            },
            Expect::Leader,
        ),
        "exactly_quorum_minus_2_voters" => (
            Class::Voters {
                label: kind.into(),
                voters: subset(&mut rng, peers, need - 1),
                copies: 1,
                delay_ms: None,
                answer_heartbeats: false,
                linger_ms: 0,
            },
            Expect::NoStart,
        ),
        "duplicate_votes" => (
            Class::Voters {
                label: kind.into(),
                voters: {
                    let k = rng.range(1, need - 1);
                    subset(&mut rng, peers, k)
                },
                copies: rng.range(need + 1, need + 12),
                delay_ms: if rng.chance(1, 3) { Some((0, 60)) } else { None },
                answer_heartbeats: false,
                linger_ms: 0,
            },
            Expect::NoStart,
        ),
        "late_votes_delayed" => (
            Class::Voters {
                label: kind.into(),
                voters: {
                    let k = rng.range(need, peers);
                    subset(&mut rng, peers, k)
                },
                copies: 1,
                delay_ms: Some(*rng.pick(&[(t * 5 / 6, t * 7 / 6), (t, t * 2), (0, t * 3), (t * 2, t * 3)])),
                answer_heartbeats: false,
                linger_ms: 40,
            },
            Expect::Any,
        ),
        "unknown_ids" => (
            Class::UnknownVotes { voters: subset(&mut rng, peers, need - 1), extra: need + 2 + rng.below(8) },
            Expect::NoStart,
        ),
        "unsolicited_fenced" | "unsolicited_flood" => (
            Class::Unsolicited {
                fenced: kind == "unsolicited_fenced",
                probe_by: rng.below(peers),
                probe_prio: if rng.chance(1, 2) { my } else { higher },
                copies: rng.range(1, 3),
                voters_after: subset(&mut rng, peers, need - 1),
            },
            if kind == "unsolicited_fenced" { Expect::NoStart } else { Expect::Any },
        ),
        "late_votes_split_rounds_fenced" => {
            let mut order: Vec<usize> = (0..peers).collect();
            rng.shuffle(&mut order);
            let a: Vec<usize> = order[..need - 1].to_vec();
            let b: Vec<usize> = order[1..need].to_vec();
            (
                Class::SplitRounds {
                    a,
                    b,
                    probe_by: rng.below(peers),
                    probe_prio: if rng.chance(1, 2) { my } else { higher },
                    probe_delay_ms: if rng.chance(1, 2) { 0 } else { t * 5 / 4 + rng.below((t / 2) as usize) as u64 },
                },
                Expect::NoStart,
            )
        }
        k if k.starts_with("candidate_") => {
            let by = rng.below(peers);
            let prio = if k.contains("higher") {
                higher
            } else if k.contains("equal") {
                my
            } else {
                lower
            };
            let with_hb = k.contains("_hb");
            let hb_who = if k.ends_with("nonmember") {
                if rng.chance(1, 4) { HbWho::NodeItself } else { HbWho::NonMember(rng.pick(&unknown_ids()[..]).clone()) }
            } else if k.ends_with("other_peer") {
                let mut other = rng.below(peers);
                if other == by {
                    other = (other + 1) % peers;
                }
                HbWho::OtherPeer(other)
            } else {
                HbWho::Candidate
            };
            let hb_who = if hb_who == HbWho::NonMember(NODE_ID.into()) { HbWho::NodeItself } else { hb_who };
            let hb_when = if !with_hb {
                HbWhen::Never
            } else if rng.chance(2, 3) {
                HbWhen::OnReaction
            } else {
                HbWhen::Blind(rng.below(100) as u64)
            };
            let at_ready = rng.chance(1, 2);
            let supported = !k.contains("lower") || node_prio.is_none() && prio == i64::MAX;
            let expect = if with_hb && supported && matches!(hb_who, HbWho::Candidate | HbWho::OtherPeer(_)) {
                Expect::Follower
            } else {
                Expect::Any
            };
            (
                Class::Candidate {
                    label: k.into(),
                    by,
                    prio,
                    at_ready,
                    in_round: 1 + rng.below(2),
                    hb_who,
                    hb_when,
                    hb_from_foreign_socket: rng.chance(1, 5),
                    voters: {
                        let k = rng.below(need.max(1));
                        subset(&mut rng, peers, k)
                    },
                },
                expect,
            )
        }
        "nonmember_heartbeats" => (
            Class::ForeignHeartbeats {
                voters: if need >= 1 { subset(&mut rng, peers, need - 1) } else { vec![] },
                period_ms: 5 + rng.below(40) as u64,
            },
            if need == 0 { Expect::Leader } else { Expect::NoStart },
        ),
        "malformed" => (
            Class::Malformed {
                voters: if need >= 1 { subset(&mut rng, peers, need - 1) } else { vec![] },
                in_round: if peers == 0 { 0 } else { rng.below(3) },
            },
            Expect::Any,
        ),
        "mixed" => (Class::Mixed, Expect::Any),
        _ => (Class::RejectedConfig, Expect::NoStart),
    };
    Scenario { n, quorum_cfg, node_prio, node_pos, class, rounds, expect, seed }
}

fn generate(tier: Tier, seed: u64) -> Vec<Scenario> {
    let mut rng = Rng::new(seed).fork(19);
    // (n, configured quorum) for n = 1..7, quorum unset or 1..n
    let mut pairs: Vec<(usize, Option<usize>, &'static str)> = Vec::new();
    for n in 1..=7usize {
        let mut quorums: Vec<Option<usize>> = vec![None];
        quorums.extend((1..=n).map(Some));
        for q in quorums {
            let need = q.unwrap_or(n / 2 + 1) - 1;
            for kind in KINDS {
                if applicable(kind, n, need) {
                    pairs.push((n, q, kind));
                }
            }
        }
    }
    let mut out = Vec::new();
    match tier {
        Tier::Thorough => {
            for rep in 0..5u64 {
                for (i, (n, q, kind)) in pairs.iter().enumerate() {
                    let s = rng.fork(rep * 100_000 + i as u64).next();
                    out.push(make_scenario(kind, *n, *q, s, tier));
                }
            }
        }
        Tier::Quick => {
            // balanced selection of ~145 (config, class) pairs: every class and every config is used
            rng.shuffle(&mut pairs);
            let mut per_kind: BTreeMap<&str, usize> = BTreeMap::new();
            let mut per_cfg: BTreeMap<(usize, Option<usize>), usize> = BTreeMap::new();
            let mut left = pairs.clone();
            while out.len() < 145 && !left.is_empty() {
                let (pos, _) = left
                    .iter()
                    .enumerate()
                    .min_by_key(|(_, (n, q, k))| {
                        per_kind.get(k).copied().unwrap_or(0) * 3 + per_cfg.get(&(*n, *q)).copied().unwrap_or(0) * 2
                    })
                    .expect("non-empty");
                let (n, q, kind) = left.swap_remove(pos);
                *per_kind.entry(kind).or_default() += 1;
                *per_cfg.entry((n, q)).or_default() += 1;
                let s = rng.fork(out.len() as u64 + 7).next();
                out.push(make_scenario(kind, n, q, s, tier));
            }
        }
    }
    // configs that must be rejected: quorum > n
    let rejected = tier.pick(5, 21);
    for i in 0..rejected {
        let n = 1 + (i % 7);
        let q = n + 1 + (i / 7);
        let s = rng.fork(900_000 + i as u64).next();
        let mut scn = make_scenario("rejected_config", n, Some(q), s, tier);
        scn.rounds = 1;
        out.push(scn);
    }
    out
}

// ---------------------------------------------------------------------------------------------
// running
// ---------------------------------------------------------------------------------------------

fn scenario_hash(scn: &Scenario) -> u64 {
    let mut v = serde_json::to_value(scn).unwrap_or(Value::Null);
    if let Some(o) = v.as_object_mut() {
        // the seed only matters through the script it generated, except for the random classes
        if !matches!(scn.class, Class::Mixed | Class::Malformed { .. }) {
            o.remove("seed");
        }
    }
    hash_str(&v.to_string())
}

fn sample_of(scn: &Scenario, o: &Outcome, jd: &Judged) -> Value {
    let shown: Vec<Value> = o
        .events
        .iter()
        .filter(|e| !(e.dir == "in" && e.kind == Some(Kind::HbReq)))
        .take(40)
        .map(|e| {
            json!(format!(
                "#{} {}ms {} {} {}{}{}",
                e.seq,
                e.t_ms,
                e.dir,
                e.sock,
                e.kind.map(|k| format!("{k:?}")).unwrap_or_default(),
                if e.id.is_empty() { String::new() } else { format!(" id={:?}", e.id) },
                if e.note.is_empty() { String::new() } else { format!(" {}", e.note) },
            ))
        })
        .collect();
    json!({
        "class": scn.class.kind(),
        "nodes": scn.n,
        "configured_quorum": scn.quorum_cfg,
        "quorum_in_effect": scn.quorum(),
        "script": scn.class,
        "vote_rounds_seen": o.rounds_seen,
        "stub_starts": o.starts,
        "leader_start_distinct_voters_vs_needed": jd.leader_margin,
        "node_exit": o.node_exit,
        "first_events": shown,
    })
}

fn run_one(scn: &Scenario, idx: usize, bin: &Path, base: &Path, ev: &mut Evidence, finding_open: bool, salt: u64) {
    let kind = scn.class.kind();
    let mut attempt = 0;
    loop {
        let dir = scenario_dir(base, idx, attempt);
        let o = run_scenario(scn, bin, &dir);
        let keep_dir = std::env::var("VERIF_C19_KEEP").is_ok();
        if !keep_dir {
            std::fs::remove_dir_all(&dir).ok();
        }
        if let Some(t) = &o.env_trouble {
            ev.count("environment_trouble", 1);
            if attempt == 0 {
                attempt += 1;
                continue;
            }
            eprintln!("C19: scenario {idx} ({kind}): {t}");
            ev.inconclusive += 1;
            ev.eval(None);
            return;
        }
        let jd = judge(scn, &o);

        // liveness is not asserted: a missing expected start is at most inconclusive
        let leader = jd.leader_starts > 0;
        let follower = jd.follower_starts > 0;
        let bind_failed = o.err_tail.contains("error opening UDP socket");
        let missing = match scn.expect {
            Expect::Leader => !leader,
            Expect::Follower => !follower,
            _ => false,
        } || bind_failed
            // the node announced a child start that the stub did not log: observation incomplete
            || o.starts_in_node_log > o.starts.len()
            || (o.watchdog && jd.violations.is_empty() && o.rounds_seen == 0 && o.starts.is_empty() && o.node_exit.is_none());
        if missing && jd.violations.is_empty() && attempt == 0 {
            ev.count("retried_after_missing_expected_start", 1);
            attempt += 1;
            continue;
        }

        let nontrivial = o.rounds_seen > 0 || !o.starts.is_empty();
        ev.eval(nontrivial.then(|| scenario_hash(scn) ^ salt));
        ev.count(&format!("class_{kind}"), 1);
        ev.count(&format!("cluster_size_{}", scn.n), 1);
        ev.count(if scn.quorum_cfg.is_some() { "quorum_configured" } else { "quorum_default" }, 1);
        ev.count("datagrams_sent_by_scripted_peers", o.sent);
        ev.count("datagrams_received_from_node", o.received);
        ev.count("vote_rounds_observed", o.rounds_seen as u64);
        ev.count("scenario_wall_ms_total", o.wall_ms);
        if o.ready_hint {
            ev.count("ready_hint_seen", 1);
        }
        ev.count("leader_starts", jd.leader_starts);
        ev.count("follower_starts", jd.follower_starts);
        ev.count("fences_node_answered_a_later_request", jd.fences);
        ev.count("fences_before_first_vote_request", jd.fences_before_round_1);
        ev.count("votes_proven_consumed_outside_any_vote_window", jd.votes_fenced_out);
        for (have, need) in &jd.leader_margin {
            let d = *have as i64 - *need as i64;
            ev.count(
                &format!("leader_start_with_distinct_voters_needed{}", if d == 0 { "_exactly".to_owned() } else { format!("_plus_{d}") }),
                1,
            );
            ev.count(&format!("leader_start_needed_{need}_votes"), 1);
        }
        if scn.expect == Expect::NoStart && o.starts.is_empty() {
            ev.count("no_start_scenarios_without_start", 1);
            ev.count("no_start_rounds_waited", o.rounds_seen as u64);
        }
        if matches!(&scn.class, Class::Voters { label, .. } if label == "exactly_quorum_minus_2_voters") && !leader {
            ev.count("threshold_minus_one_never_led", 1);
        }
        if matches!(&scn.class, Class::Voters { label, .. } if label == "exactly_quorum_minus_1_voters") && leader {
            ev.count("threshold_exactly_led", 1);
        }
        if let Some(status) = &o.node_exit {
            ev.count("node_process_exited_during_scenario", 1);
            if matches!(scn.class, Class::Malformed { .. }) {
                ev.count("node_exited_after_malformed_datagram", 1);
            }
            if matches!(scn.class, Class::RejectedConfig) {
                ev.count("config_with_quorum_above_n_rejected", 1);
            }
            let _ = status;
        }
        if o.starts_in_node_log > o.starts.len() {
            ev.count("child_start_in_node_log_not_logged_by_stub", 1);
        }
        if o.watchdog {
            ev.count("watchdog_ended_scenario", 1);
        }
        if o.events_dropped > 0 {
            ev.count("events_not_logged_cap", o.events_dropped);
        }
        let debug = std::env::var("VERIF_C19_DEBUG").unwrap_or_default();
        if (missing && jd.violations.is_empty() && !debug.is_empty()) || debug == "2" {
            {
                eprintln!(
                    "C19 debug: scenario {idx} {kind} n={} q={:?} expect={:?} rounds_seen={} starts={:?} exit={:?} watchdog={} ready_hint={} wall_ms={}\n--- events\n{}\n--- stderr tail\n{}",
                    scn.n, scn.quorum_cfg, scn.expect, o.rounds_seen, o.starts, o.node_exit, o.watchdog, o.ready_hint, o.wall_ms,
                    o.events.iter().take(60).map(|e| format!("#{} {}ms {} {} {:?} {} {}", e.seq, e.t_ms, e.dir, e.sock, e.kind, e.id, e.note)).collect::<Vec<_>>().join("\n"),
                    o.err_tail.lines().rev().take(25).collect::<Vec<_>>().into_iter().rev().collect::<Vec<_>>().join("\n")
                );
            }
        }
        if missing && jd.violations.is_empty() {
            ev.inconclusive += 1;
            ev.count(&format!("inconclusive_{kind}"), 1);
        }
        let _ = finding_open;
        for (sig, detail) in jd.violations.iter().cloned() {
            ev.violation(sig, detail);
        }
        if ev.wants_sample() && nontrivial && (idx % 37 == 0 || !o.starts.is_empty() && idx % 11 == 0) {
            ev.sample(sample_of(scn, &o, &jd));
        }
        return;
    }
}

pub fn run(ctx: &Ctx) -> Evidence {
    let mut ev = ctx.evidence("C19", "exploration");
    ev.max_samples = 5;
    ev.rule = "scenario = (cluster size n in 1..7, configured quorum unset or 1..n [plus a few rejected configs with quorum > n], \
               scripted behaviour of all n-1 other nodes with its parameters) run against one real orchestrator process; \
               non-trivial = the node sent at least one vote request to the scripted peers or started the stub server; \
               distinct = hash of (n, quorum, node priority, position in the config, behaviour class and all script parameters)"
        .into();
    ev.assumptions = vec![
        "safety only: a start that never happens is never an alarm; liveness is not asserted".into(),
        "votes/heartbeats are attributed to the node id claimed in the payload (the orchestrator does not authenticate senders)".into(),
        "a UDP socket on loopback delivers datagrams to its reader in the order they were queued (used only to bound rounds after an answered request)".into(),
        format!(
            "orchestrator timeouts -t {} -H {}; one node per cluster is the real binary, all others are scripted",
            heartbeat_min_timeout_ms(),
            heartbeat_min_timeout_ms() / 4
        ),
    ];

    let scratch = ctx.scratch("c19");
    let bin = match build_orchestrator(&scratch) {
        Ok(b) => b,
        Err(e) => {
            eprintln!("HARNESS-ERROR: property=C19 {e}");
            cleanup_scratch();
            std::process::exit(2);
        }
    };

    let finding_open = !FINDING_ID.is_empty() && ctx.findings.open(FINDING_ID, "C19");

    if let Some(replay) = &ctx.replay {
        // re-run the scenario of a replay file a few times (schedules differ between runs)
        let text = std::fs::read_to_string(replay).unwrap_or_default();
        let scn: Option<Scenario> = serde_json::from_str::<Value>(&text)
            .ok()
            .and_then(|v| v.pointer("/detail/scenario").cloned())
            .and_then(|v| serde_json::from_value(v).ok());
        let Some(scn) = scn else {
            eprintln!("HARNESS-ERROR: property=C19 cannot read a scenario from {}", replay.display());
            cleanup_scratch();
            std::process::exit(2);
        };
        ev.rule = "replay: one scenario repeated 5 times; each repetition is a different schedule and counted as distinct".into();
        for i in 0..5 {
            run_one(&scn, i, &bin, &scratch, &mut ev, finding_open, i as u64);
        }
        return ev;
    }

    let mut scenarios = generate(ctx.tier, ctx.seed);
    // debugging aids (not used by /verif/check): restrict to one behaviour class / the first N scenarios
    if let Ok(only) = std::env::var("VERIF_C19_ONLY") {
        scenarios.retain(|s| s.class.kind().contains(&only));
    }
    if let Some(limit) = std::env::var("VERIF_C19_LIMIT").ok().and_then(|l| l.parse::<usize>().ok()) {
        scenarios.truncate(limit);
    }
    ev.extra.insert("scenarios_generated".into(), json!(scenarios.len()));
    let scenarios_ref = &scenarios;
    let bin_ref = &bin;
    let scratch_ref = &scratch;
    par_shards(&mut ev, scenarios.len(), |i, e| {
        run_one(&scenarios_ref[i], i, bin_ref, scratch_ref, e, finding_open, 0);
    });
    ev
}
