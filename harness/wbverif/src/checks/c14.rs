//! C14 Every protocol message survives encoding and decoding unchanged.
//!
//! Runs the REAL serde implementations of `ClientMessage`, `ServerMessage` and the cluster sync
//! messages (`LeaderSyncMessage` / `ClientWriteCommand` / `StateSync`, hook H1) and the REAL
//! transport functions (`write_line_and_flush` -> in-memory duplex -> `receive_msg`) over generated
//! messages and decides with an oracle over what was observed:
//!
//! * the encoding exists, is one line (no '\n', no '\r'),
//! * encoding the message twice gives the same JSON document (modulo object key order),
//! * `decode(encode(m)) == m` by the types' own `PartialEq` (field-wise for the sync messages, whose
//!   wrappers derive none) AND strictly in JSON space (number kind, float bits incl. the sign of zero),
//! * re-encoding the decoded message gives the same document,
//! * the same when the message travels through `write_line_and_flush` / `receive_msg`, in a stream
//!   of many messages (framing: message k arrives as the k-th line).
//!
//! `StoreNode`s (inside `StateSync`) are never built by deserialisation: a real core is filled with
//! `set` / `cset` and `export()`ed, exactly like the leader does.
//!
//! Generation is a pure function of (seed, shard, index), so a replay file names one message.

use crate::{
    Ctx, cleanup_scratch,
    core::{Runner, fresh_core, par_shards},
    evidence::Evidence,
    rng::{Rng, hash_str},
};
use serde::{Serialize, de::DeserializeOwned};
use serde_json::{Map, Number, Value, json};
use std::{
    collections::{BTreeMap, BTreeSet},
    sync::Mutex,
    time::Duration,
};
use tokio::io::{AsyncBufReadExt, BufReader};
use uuid::Uuid;
use worterbuch::verif::{ClientWriteCommand, LeaderSyncMessage, StateSync, StoreNode};
use worterbuch_common::{
    Ack, AuthorizationRequest, CSet, CState, CStateEvent, ClientMessage, Delete, Err as ErrMsg,
    ErrorCode, Get, KeyValuePair, Lock, Ls, LsState, PDelete, PGet, PLs, PState, PStateEvent,
    PSubscribe, ProtocolSwitchRequest, ProtocolVersion, Publish, SPub, SPubInit, ServerInfo,
    ServerMessage, Set, State, StateEvent, Subscribe, SubscribeLs, Transform, Unsubscribe,
    UnsubscribeLs, Welcome, receive_msg, write_line_and_flush,
};

// ---------------------------------------------------------------------------------------------
// known findings (ids of this property; relax nothing unless recorded as open)
// ---------------------------------------------------------------------------------------------

/// plain value `{"Cas":[x,n]}` inside a StoreNode is decoded as CAS value x with version n
const F_CAS: &str = "Fc14-1";
/// plain value `null` inside a StoreNode is decoded as "no value"
const F_NULL: &str = "Fc14-2";
/// a message whose JSON document is nested deeper than serde_json's recursion limit cannot be decoded
const F_DEPTH: &str = "Fc14-3";
/// a float whose shortest decimal representation is not parsed back to the same f64
const F_FLOAT: &str = "Fc14-4";

/// serde_json refuses documents with this many (or more) nested arrays/objects
const RECURSION_LIMIT: usize = 128;

// ---------------------------------------------------------------------------------------------
// boundary pools
// ---------------------------------------------------------------------------------------------

const IDS: &[u64] = &[
    0,
    1,
    (1 << 53) - 1,
    1 << 53,
    (1 << 53) + 1,
    i64::MAX as u64,
    i64::MAX as u64 + 1,
    u64::MAX - 1,
    u64::MAX,
];

const U32S: &[u32] = &[0, 1, 2, i32::MAX as u32, i32::MAX as u32 + 1, u32::MAX];

const STRINGS: &[&str] = &[
    "",
    "a",
    "a/b/c",
    "hello/world",
    "/",
    "//",
    "a//b",
    "/lead",
    "trail/",
    "ünï/cödé/日本語/🦀",
    "with space",
    "quote\"key",
    "single'quote",
    "back\\slash",
    "new\nline",
    "cr\rlf\r\n",
    "ends with cr\r",
    "tab\there",
    "ls\u{2028}ps\u{2029}",
    "nul\u{0}char",
    "\u{1}\u{1f}\u{7f}\u{80}\u{9f}",
    "\u{feff}bom",
    "\u{d7ff}\u{e000}\u{fffd}\u{ffff}\u{10000}\u{10ffff}",
    "e\u{301}combining",
    "\\u0041 \\n literal escapes",
    "#",
    "?",
    "a/?/#",
    "?/?/b/#",
    "$SYS/clients",
    "$SYS/#",
    "transactionId",
    "value",
    "deleted",
    "keyValuePairs",
    "Cas",
    "v",
    "t",
    "null",
    "true",
    "0",
    "-0.0",
    "1e400",
    "{\"json\":\"in a string\"}",
    "[1,2",
    "}{",
];

const SEGMENTS: &[&str] = &[
    "a", "b", "c", "v", "t", "Cas", "value", "", "ü", "日本", "🦀", "with space", "q\"uote", "b\\s",
    "n\nl", "\u{2028}", "\u{0}", "0", "null", "data", "transactionId",
];

/// object keys that collide with field names of the envelopes
const COLLIDING_KEYS: &[&str] = &[
    "transactionId",
    "value",
    "deleted",
    "keyValuePairs",
    "Cas",
    "v",
    "t",
    "key",
    "version",
    "requestPattern",
    "set",
    "state",
    "pState",
    "cState",
    "init",
    "mut",
    "event",
    "errorCode",
    "metadata",
    "",
    "data",
];

const HARD_FLOATS: &[f64] = &[
    0.0,
    -0.0,
    5e-324,
    -5e-324,
    2.2250738585072014e-308,
    2.225073858507201e-308,
    2.2250738585072011e-308,
    f64::MAX,
    f64::MIN,
    f64::EPSILON,
    0.1,
    0.2,
    0.30000000000000004,
    1.0 / 3.0,
    4.35,
    1e21,
    1e22,
    1e23,
    8.41e21,
    9007199254740992.0,
    9007199254740994.0,
    18446744073709551615.0,
    -9223372036854775808.0,
    1e-7,
    0.000001,
    123456789012345680000.0,
    1.7976931348623157e308,
    4.9406564584124654e-324,
    6.02214076e23,
    1e-323,
    7.2057594037927933e16,
    1.0,
    -1.5,
];

const ALL_ERROR_CODES: &[ErrorCode] = &[
    ErrorCode::IllegalWildcard,
    ErrorCode::IllegalMultiWildcard,
    ErrorCode::MultiWildcardAtIllegalPosition,
    ErrorCode::IoError,
    ErrorCode::SerdeError,
    ErrorCode::NoSuchValue,
    ErrorCode::NotSubscribed,
    ErrorCode::ProtocolNegotiationFailed,
    ErrorCode::InvalidServerResponse,
    ErrorCode::ReadOnlyKey,
    ErrorCode::AuthorizationFailed,
    ErrorCode::AuthorizationRequired,
    ErrorCode::AlreadyAuthorized,
    ErrorCode::MissingValue,
    ErrorCode::Unauthorized,
    ErrorCode::NoPubStream,
    ErrorCode::NotLeader,
    ErrorCode::Cas,
    ErrorCode::CasVersionMismatch,
    ErrorCode::NotImplemented,
    ErrorCode::KeyIsLocked,
    ErrorCode::KeyIsNotLocked,
    ErrorCode::LockAcquisitionCancelled,
    ErrorCode::FeatureDisabled,
    ErrorCode::ClientIDCollision,
    ErrorCode::EmptyKey,
    ErrorCode::Other,
];

/// index into ALL_ERROR_CODES; exhaustive, so a new error code breaks the build of the harness
/// instead of silently staying untested
fn error_code_index(c: &ErrorCode) -> usize {
    match c {
        ErrorCode::IllegalWildcard => 0,
        ErrorCode::IllegalMultiWildcard => 1,
        ErrorCode::MultiWildcardAtIllegalPosition => 2,
        ErrorCode::IoError => 3,
        ErrorCode::SerdeError => 4,
        ErrorCode::NoSuchValue => 5,
        ErrorCode::NotSubscribed => 6,
        ErrorCode::ProtocolNegotiationFailed => 7,
        ErrorCode::InvalidServerResponse => 8,
        ErrorCode::ReadOnlyKey => 9,
        ErrorCode::AuthorizationFailed => 10,
        ErrorCode::AuthorizationRequired => 11,
        ErrorCode::AlreadyAuthorized => 12,
        ErrorCode::MissingValue => 13,
        ErrorCode::Unauthorized => 14,
        ErrorCode::NoPubStream => 15,
        ErrorCode::NotLeader => 16,
        ErrorCode::Cas => 17,
        ErrorCode::CasVersionMismatch => 18,
        ErrorCode::NotImplemented => 19,
        ErrorCode::KeyIsLocked => 20,
        ErrorCode::KeyIsNotLocked => 21,
        ErrorCode::LockAcquisitionCancelled => 22,
        ErrorCode::FeatureDisabled => 23,
        ErrorCode::ClientIDCollision => 24,
        ErrorCode::EmptyKey => 25,
        ErrorCode::Other => 26,
    }
}

// ---------------------------------------------------------------------------------------------
// generators: scalars, strings, JSON values
// ---------------------------------------------------------------------------------------------

fn gen_id(rng: &mut Rng) -> u64 {
    if rng.chance(1, 8) {
        rng.next() >> rng.below(64)
    } else {
        *rng.pick(IDS)
    }
}

fn gen_u32(rng: &mut Rng) -> u32 {
    if rng.chance(1, 4) {
        rng.next() as u32
    } else {
        *rng.pick(U32S)
    }
}

const CHARS: &[char] = &[
    'a', 'Z', '0', ' ', '/', '#', '?', '$', '"', '\'', '\\', '\n', '\r', '\t', '\u{0}', '\u{8}',
    '\u{c}', '\u{1f}', '\u{7f}', '\u{80}', '\u{a0}', 'ß', 'ü', '\u{2028}', '\u{2029}', '\u{feff}',
    '日', '\u{d7ff}', '\u{e000}', '\u{fffd}', '\u{ffff}', '\u{10000}', '🦀', '\u{10ffff}', '{', '}',
    '[', ']', ':', ',',
];

fn gen_string(rng: &mut Rng) -> String {
    match rng.below(10) {
        0 => {
            let n = rng.below(24);
            (0..n).map(|_| *rng.pick(CHARS)).collect()
        }
        1 => {
            // a key made of pool segments
            let n = rng.range(1, 5);
            (0..n).map(|_| *rng.pick(SEGMENTS)).collect::<Vec<_>>().join("/")
        }
        2 if rng.chance(1, 8) => {
            // long: crosses the 1024-byte chunks of write_line_and_flush
            let unit = *rng.pick(&["x", "ü", "🦀", "\n", "\""]);
            unit.repeat(rng.range(900, 3000))
        }
        _ => (*rng.pick(STRINGS)).to_owned(),
    }
}

fn float(x: f64) -> Value {
    Number::from_f64(x).map(Value::Number).unwrap_or(Value::Null)
}

fn gen_random_float(rng: &mut Rng) -> Value {
    loop {
        let x = f64::from_bits(rng.next());
        if x.is_finite() {
            return float(x);
        }
    }
}

fn gen_int(rng: &mut Rng) -> Value {
    match rng.below(6) {
        0 => json!(*rng.pick(IDS)),
        1 => json!(*rng.pick(&[
            0i64,
            -1,
            i64::MIN,
            i64::MIN + 1,
            i64::MAX,
            -(1 << 53),
            -(1 << 53) - 1,
            i32::MIN as i64
        ])),
        2 => json!(rng.next()),
        3 => json!(rng.next() as i64),
        _ => json!(rng.below(1000) as i64 - 500),
    }
}

fn gen_scalar(rng: &mut Rng) -> Value {
    match rng.below(8) {
        0 => Value::Null,
        1 => json!(rng.chance(1, 2)),
        2 | 3 => gen_int(rng),
        4 => float(*rng.pick(HARD_FLOATS)),
        5 => gen_random_float(rng),
        _ => json!(gen_string(rng)),
    }
}

fn gen_object_key(rng: &mut Rng) -> String {
    if rng.chance(2, 3) {
        (*rng.pick(COLLIDING_KEYS)).to_owned()
    } else {
        gen_string(rng)
    }
}

fn gen_nested(rng: &mut Rng, depth: usize) -> Value {
    if depth == 0 || rng.chance(2, 5) {
        return gen_scalar(rng);
    }
    if rng.chance(1, 2) {
        let n = rng.below(5);
        Value::Array((0..n).map(|_| gen_nested(rng, depth - 1)).collect())
    } else {
        let n = rng.below(5);
        let mut m = Map::new();
        for _ in 0..n {
            m.insert(gen_object_key(rng), gen_nested(rng, depth - 1));
        }
        Value::Object(m)
    }
}

/// shapes that look like pieces of the envelopes (ValueEntry, StoreNode, State/PState events)
fn gen_suspect(rng: &mut Rng) -> Value {
    let x = gen_nested(rng, 2);
    let n = gen_id(rng);
    match rng.below(16) {
        0 | 1 | 2 => json!({"Cas": [x, n]}),
        3 => json!({"Cas": [x]}),
        4 => json!({"Cas": [x, n, 1]}),
        5 => json!({"Cas": [x, -1]}),
        6 => json!({"Cas": [x, 1.0]}),
        7 => json!({"Cas": [x, n], "other": 1}),
        8 => json!({"Cas": {"0": x, "1": n}}),
        9 => json!({"cas": [x, n]}),
        10 => json!({"Plain": x}),
        11 => json!({"v": x, "t": {"a": {"v": 1}}}),
        12 => json!({"value": x, "deleted": 2, "transactionId": n}),
        13 => json!({"keyValuePairs": [{"key": "k", "value": x}], "deleted": [], "requestPattern": "#"}),
        14 => json!({"Cas": [{"Cas": [x, n]}, 0]}),
        _ => json!([{"Cas": [null, 0]}, null, {"v": null}]),
    }
}

fn chain(rng: &mut Rng, depth: usize) -> Value {
    let mut v = gen_scalar(rng);
    for _ in 0..depth {
        v = if rng.chance(1, 2) {
            Value::Array(vec![v])
        } else {
            let mut m = Map::new();
            m.insert((*rng.pick(COLLIDING_KEYS)).to_owned(), v);
            Value::Object(m)
        };
    }
    v
}

pub const VALUE_CLASSES: &[&str] = &[
    "null",
    "bool",
    "boundary-integer",
    "hard-float",
    "random-bits-float",
    "string",
    "array",
    "object-with-envelope-keys",
    "envelope-lookalike",
    "deep-chain(20..100)",
    "deep-chain-around-recursion-limit(110..135)",
    "big(>1024 bytes)",
    "random-nested",
];

/// (value, class index)
fn gen_value(rng: &mut Rng) -> (Value, usize) {
    let class = match rng.below(40) {
        0..=2 => 0,
        3 | 4 => 1,
        5..=8 => 2,
        9..=12 => 3,
        13..=16 => 4,
        17..=20 => 5,
        21..=23 => 6,
        24..=27 => 7,
        28..=31 => 8,
        32 | 33 => 9,
        34 => 10,
        35 => 11,
        _ => 12,
    };
    (gen_value_of_class(rng, class), class)
}

fn gen_value_of_class(rng: &mut Rng, class: usize) -> Value {
    match class {
        0 => Value::Null,
        1 => json!(rng.chance(1, 2)),
        2 => gen_int(rng),
        3 => float(*rng.pick(HARD_FLOATS)),
        4 => gen_random_float(rng),
        5 => json!(gen_string(rng)),
        6 => {
            let n = rng.below(6);
            Value::Array((0..n).map(|_| gen_nested(rng, 2)).collect())
        }
        7 => {
            let n = rng.range(1, 5);
            let mut m = Map::new();
            for _ in 0..n {
                m.insert((*rng.pick(COLLIDING_KEYS)).to_owned(), gen_nested(rng, 2));
            }
            Value::Object(m)
        }
        8 => gen_suspect(rng),
        9 => {
            let d = rng.range(20, 100);
            chain(rng, d)
        }
        10 => {
            let d = rng.range(110, 135);
            chain(rng, d)
        }
        11 => {
            let n = rng.range(300, 1500);
            Value::Array((0..n).map(|_| gen_scalar(rng)).collect())
        }
        _ => gen_nested(rng, 5),
    }
}

fn opt<T>(rng: &mut Rng, f: impl FnOnce(&mut Rng) -> T) -> Option<T> {
    if rng.chance(1, 2) { Some(f(rng)) } else { None }
}

// ---------------------------------------------------------------------------------------------
// generators: messages
// ---------------------------------------------------------------------------------------------

const N_CLIENT: usize = 23;

fn gen_client(rng: &mut Rng, variant: usize) -> (ClientMessage, Option<usize>) {
    let transaction_id = gen_id(rng);
    let mut class = None;
    let mut value = |rng: &mut Rng| {
        let (v, c) = gen_value(rng);
        class = Some(c);
        v
    };
    let m = match variant {
        0 => ClientMessage::ProtocolSwitchRequest(ProtocolSwitchRequest { version: gen_u32(rng) }),
        1 => ClientMessage::AuthorizationRequest(AuthorizationRequest { auth_token: gen_string(rng) }),
        2 => ClientMessage::Get(Get { transaction_id, key: gen_string(rng) }),
        3 => ClientMessage::CGet(Get { transaction_id, key: gen_string(rng) }),
        4 => ClientMessage::PGet(PGet { transaction_id, request_pattern: gen_string(rng) }),
        5 => ClientMessage::Set(Set { transaction_id, key: gen_string(rng), value: value(rng) }),
        6 => ClientMessage::CSet(CSet {
            transaction_id,
            key: gen_string(rng),
            value: value(rng),
            version: gen_id(rng),
        }),
        7 => ClientMessage::SPubInit(SPubInit { transaction_id, key: gen_string(rng) }),
        8 => ClientMessage::SPub(SPub { transaction_id, value: value(rng) }),
        9 => ClientMessage::Publish(Publish { transaction_id, key: gen_string(rng), value: value(rng) }),
        10 => ClientMessage::Subscribe(Subscribe {
            transaction_id,
            key: gen_string(rng),
            unique: rng.chance(1, 2),
            live_only: opt(rng, |r| r.chance(1, 2)),
        }),
        11 => ClientMessage::PSubscribe(PSubscribe {
            transaction_id,
            request_pattern: gen_string(rng),
            unique: rng.chance(1, 2),
            aggregate_events: opt(rng, gen_id),
            live_only: opt(rng, |r| r.chance(1, 2)),
        }),
        12 => ClientMessage::Unsubscribe(Unsubscribe { transaction_id }),
        13 => ClientMessage::Delete(Delete { transaction_id, key: gen_string(rng) }),
        14 => ClientMessage::PDelete(PDelete {
            transaction_id,
            request_pattern: gen_string(rng),
            quiet: opt(rng, |r| r.chance(1, 2)),
        }),
        15 => ClientMessage::Ls(Ls { transaction_id, parent: opt(rng, gen_string) }),
        16 => ClientMessage::PLs(PLs { transaction_id, parent_pattern: opt(rng, gen_string) }),
        17 => ClientMessage::SubscribeLs(SubscribeLs { transaction_id, parent: opt(rng, gen_string) }),
        18 => ClientMessage::UnsubscribeLs(UnsubscribeLs { transaction_id }),
        19 => ClientMessage::Lock(Lock { transaction_id, key: gen_string(rng) }),
        20 => ClientMessage::AcquireLock(Lock { transaction_id, key: gen_string(rng) }),
        21 => ClientMessage::ReleaseLock(Lock { transaction_id, key: gen_string(rng) }),
        _ => ClientMessage::Transform(Transform { transaction_id, key: gen_string(rng), template: value(rng) }),
    };
    (m, class)
}

fn gen_kvps(rng: &mut Rng, class: &mut Option<usize>) -> Vec<KeyValuePair> {
    let n = if rng.chance(1, 40) { rng.range(100, 400) } else { rng.below(5) };
    (0..n)
        .map(|i| {
            let (v, c) = gen_value(rng);
            if i == 0 {
                *class = Some(c);
            }
            KeyValuePair::new(gen_string(rng), v)
        })
        .collect()
}

const N_SERVER: usize = 10;

fn gen_server(rng: &mut Rng, variant: usize) -> (ServerMessage, Option<usize>) {
    let transaction_id = gen_id(rng);
    let mut class = None;
    let m = match variant {
        0 => {
            let n = rng.below(4);
            let versions: Vec<ProtocolVersion> =
                (0..n).map(|_| ProtocolVersion::new(gen_u32(rng), gen_u32(rng))).collect();
            ServerMessage::Welcome(Welcome {
                info: ServerInfo::new(gen_string(rng), versions.into_boxed_slice(), rng.chance(1, 2)),
                client_id: if rng.chance(1, 2) {
                    Uuid::from_u128(((rng.next() as u128) << 64) | rng.next() as u128).to_string()
                } else {
                    gen_string(rng)
                },
            })
        }
        1 => ServerMessage::PState(PState {
            transaction_id,
            request_pattern: gen_string(rng),
            event: PStateEvent::KeyValuePairs(gen_kvps(rng, &mut class)),
        }),
        2 => ServerMessage::PState(PState {
            transaction_id,
            request_pattern: gen_string(rng),
            event: PStateEvent::Deleted(gen_kvps(rng, &mut class)),
        }),
        3 => ServerMessage::Ack(Ack { transaction_id }),
        4 => {
            let (v, c) = gen_value(rng);
            class = Some(c);
            ServerMessage::State(State { transaction_id, event: StateEvent::Value(v) })
        }
        5 => {
            let (v, c) = gen_value(rng);
            class = Some(c);
            ServerMessage::State(State { transaction_id, event: StateEvent::Deleted(v) })
        }
        6 => {
            let (v, c) = gen_value(rng);
            class = Some(c);
            ServerMessage::CState(CState {
                transaction_id,
                event: CStateEvent { value: v, version: gen_id(rng) },
            })
        }
        7 => ServerMessage::Err(ErrMsg {
            transaction_id,
            error_code: rng.pick(ALL_ERROR_CODES).clone(),
            metadata: if rng.chance(1, 2) {
                // the server puts a JSON encoded text into the metadata
                json!(gen_string(rng)).to_string()
            } else {
                gen_string(rng)
            },
        }),
        8 => ServerMessage::Authorized(Ack { transaction_id }),
        _ => {
            let n = if rng.chance(1, 30) { rng.range(100, 400) } else { rng.below(6) };
            ServerMessage::LsState(LsState {
                transaction_id,
                children: (0..n).map(|_| gen_string(rng)).collect(),
            })
        }
    };
    (m, class)
}

/// one entry written into the core that produces a StoreNode
#[derive(Clone, Debug)]
pub struct Entry {
    key: String,
    value: Value,
    /// None = plain value, Some(v) = CAS value with (final) version v >= 1
    cas: Option<u64>,
}

#[derive(Clone, Debug)]
pub struct InitPlan {
    entries: Vec<Entry>,
    grave_goods: Vec<String>,
    last_will: Vec<KeyValuePair>,
}

fn gen_store_key(rng: &mut Rng) -> String {
    match rng.below(12) {
        0 => {
            // deep key: two JSON levels per segment in a StoreNode
            let n = rng.range(40, 70);
            (0..n).map(|_| *rng.pick(&["a", "b", "v", "t"])).collect::<Vec<_>>().join("/")
        }
        1 | 2 => gen_string(rng),
        _ => {
            let n = rng.range(1, 4);
            (0..n).map(|_| *rng.pick(SEGMENTS)).collect::<Vec<_>>().join("/")
        }
    }
}

fn gen_init_plan(rng: &mut Rng) -> InitPlan {
    let n = match rng.below(10) {
        0 => 0,
        1 => rng.range(20, 60),
        _ => rng.range(1, 8),
    };
    let mut keys = BTreeSet::new();
    let mut entries = Vec::new();
    for _ in 0..n {
        let key = gen_store_key(rng);
        if !keys.insert(key.clone()) {
            continue;
        }
        let value = match rng.below(10) {
            0 => Value::Null,
            1 | 2 => gen_suspect(rng),
            _ => gen_value(rng).0,
        };
        let cas = if rng.chance(1, 3) {
            Some(match rng.below(4) {
                0 => 1,
                1 => 2,
                _ => (*rng.pick(IDS)).max(1),
            })
        } else {
            None
        };
        entries.push(Entry { key, value, cas });
    }
    let g = rng.below(4);
    let w = rng.below(4);
    InitPlan {
        entries,
        grave_goods: (0..g).map(|_| gen_string(rng)).collect(),
        last_will: (0..w).map(|_| KeyValuePair::new(gen_string(rng), gen_value(rng).0)).collect(),
    }
}

/// Fills a real core like clients would and exports it like the leader does.
/// Returns the node and the entries the core accepted.
async fn build_node(entries: &[Entry]) -> (StoreNode, Vec<Entry>) {
    let mut wb = fresh_core(false);
    let client = Uuid::from_u128(0x1000_0000_0000_0000_0000_0000_0000_0001u128);
    let mut accepted = Vec::new();
    for e in entries {
        let ok = match e.cas {
            None => wb.set(e.key.clone(), e.value.clone(), client, false).await.is_ok(),
            Some(version) => {
                let mut ok = wb.cset(e.key.clone(), e.value.clone(), 0, client, false).await.is_ok();
                if ok && version >= 2 {
                    // a forced write of version v-1 leaves the entry at version v
                    ok = wb
                        .cset(e.key.clone(), e.value.clone(), version - 1, client, true)
                        .await
                        .is_ok();
                }
                ok
            }
        };
        if ok {
            accepted.push(e.clone());
        }
    }
    let (node, _, _) = wb.export();
    (node, accepted)
}

const N_SYNC: usize = 5;

enum SyncPlan {
    Init(InitPlan),
    Mut(ClientWriteCommand, Option<usize>),
}

fn gen_sync_plan(rng: &mut Rng, variant: usize) -> SyncPlan {
    match variant {
        0 => SyncPlan::Init(gen_init_plan(rng)),
        1 => {
            let (v, c) = gen_value(rng);
            SyncPlan::Mut(ClientWriteCommand::Set(gen_string(rng), v, rng.chance(1, 2)), Some(c))
        }
        2 => {
            let (v, c) = gen_value(rng);
            SyncPlan::Mut(
                ClientWriteCommand::CSet(gen_string(rng), v, gen_id(rng), rng.chance(1, 2)),
                Some(c),
            )
        }
        3 => SyncPlan::Mut(ClientWriteCommand::Delete(gen_string(rng)), None),
        _ => SyncPlan::Mut(ClientWriteCommand::PDelete(gen_string(rng)), None),
    }
}

// ---------------------------------------------------------------------------------------------
// the three message families
// ---------------------------------------------------------------------------------------------

pub trait Family: Serialize + DeserializeOwned + Clone + Send + 'static {
    const NAME: &'static str;
    /// equality by the types' own PartialEq implementations
    fn same(&self, other: &Self) -> bool;
    /// exhaustive, so a new variant breaks the harness build instead of staying untested
    fn variant(&self) -> &'static str;
    fn tid(&self) -> Option<u64>;
    fn options(&self, _out: &mut Vec<(&'static str, bool)>) {}
    fn show(&self) -> String;
}

fn clip(s: String) -> String {
    if s.len() > 1500 {
        let mut end = 1500;
        while !s.is_char_boundary(end) {
            end -= 1;
        }
        format!("{}… ({} bytes)", &s[..end], s.len())
    } else {
        s
    }
}

impl Family for ClientMessage {
    const NAME: &'static str = "client";
    fn same(&self, other: &Self) -> bool {
        self == other
    }
    fn variant(&self) -> &'static str {
        match self {
            ClientMessage::ProtocolSwitchRequest(_) => "client/protocolSwitchRequest",
            ClientMessage::AuthorizationRequest(_) => "client/authorizationRequest",
            ClientMessage::Get(_) => "client/get",
            ClientMessage::CGet(_) => "client/cGet",
            ClientMessage::PGet(_) => "client/pGet",
            ClientMessage::Set(_) => "client/set",
            ClientMessage::CSet(_) => "client/cSet",
            ClientMessage::SPubInit(_) => "client/sPubInit",
            ClientMessage::SPub(_) => "client/sPub",
            ClientMessage::Publish(_) => "client/publish",
            ClientMessage::Subscribe(_) => "client/subscribe",
            ClientMessage::PSubscribe(_) => "client/pSubscribe",
            ClientMessage::Unsubscribe(_) => "client/unsubscribe",
            ClientMessage::Delete(_) => "client/delete",
            ClientMessage::PDelete(_) => "client/pDelete",
            ClientMessage::Ls(_) => "client/ls",
            ClientMessage::PLs(_) => "client/pLs",
            ClientMessage::SubscribeLs(_) => "client/subscribeLs",
            ClientMessage::UnsubscribeLs(_) => "client/unsubscribeLs",
            ClientMessage::Lock(_) => "client/lock",
            ClientMessage::AcquireLock(_) => "client/acquireLock",
            ClientMessage::ReleaseLock(_) => "client/releaseLock",
            ClientMessage::Transform(_) => "client/transform",
        }
    }
    fn tid(&self) -> Option<u64> {
        match self {
            ClientMessage::ProtocolSwitchRequest(_) | ClientMessage::AuthorizationRequest(_) => None,
            other => other.transaction_id(),
        }
    }
    fn options(&self, out: &mut Vec<(&'static str, bool)>) {
        match self {
            ClientMessage::Subscribe(s) => out.push(("client/subscribe.liveOnly", s.live_only.is_some())),
            ClientMessage::PSubscribe(s) => {
                out.push(("client/pSubscribe.aggregateEvents", s.aggregate_events.is_some()));
                out.push(("client/pSubscribe.liveOnly", s.live_only.is_some()));
            }
            ClientMessage::PDelete(s) => out.push(("client/pDelete.quiet", s.quiet.is_some())),
            ClientMessage::Ls(s) => out.push(("client/ls.parent", s.parent.is_some())),
            ClientMessage::PLs(s) => out.push(("client/pLs.parentPattern", s.parent_pattern.is_some())),
            ClientMessage::SubscribeLs(s) => out.push(("client/subscribeLs.parent", s.parent.is_some())),
            _ => {}
        }
    }
    fn show(&self) -> String {
        clip(format!("{self:?}"))
    }
}

impl Family for ServerMessage {
    const NAME: &'static str = "server";
    fn same(&self, other: &Self) -> bool {
        self == other
    }
    fn variant(&self) -> &'static str {
        match self {
            ServerMessage::Welcome(_) => "server/welcome",
            ServerMessage::PState(p) => match p.event {
                PStateEvent::KeyValuePairs(_) => "server/pState/keyValuePairs",
                PStateEvent::Deleted(_) => "server/pState/deleted",
            },
            ServerMessage::Ack(_) => "server/ack",
            ServerMessage::State(s) => match s.event {
                StateEvent::Value(_) => "server/state/value",
                StateEvent::Deleted(_) => "server/state/deleted",
            },
            ServerMessage::CState(_) => "server/cState",
            ServerMessage::Err(_) => "server/err",
            ServerMessage::Authorized(_) => "server/authorized",
            ServerMessage::LsState(_) => "server/lsState",
        }
    }
    fn tid(&self) -> Option<u64> {
        match self {
            ServerMessage::Welcome(_) => None,
            ServerMessage::Authorized(a) => Some(a.transaction_id),
            other => other.transaction_id(),
        }
    }
    fn show(&self) -> String {
        clip(format!("{self:?}"))
    }
}

impl Family for LeaderSyncMessage {
    const NAME: &'static str = "sync";
    fn same(&self, other: &Self) -> bool {
        match (self, other) {
            (LeaderSyncMessage::Init(a), LeaderSyncMessage::Init(b)) => {
                a.0 == b.0 && a.1 == b.1 && a.2 == b.2
            }
            (LeaderSyncMessage::Mut(a), LeaderSyncMessage::Mut(b)) => match (a, b) {
                (ClientWriteCommand::Set(k1, v1, f1), ClientWriteCommand::Set(k2, v2, f2)) => {
                    k1 == k2 && v1 == v2 && f1 == f2
                }
                (ClientWriteCommand::CSet(k1, v1, n1, f1), ClientWriteCommand::CSet(k2, v2, n2, f2)) => {
                    k1 == k2 && v1 == v2 && n1 == n2 && f1 == f2
                }
                (ClientWriteCommand::Delete(k1), ClientWriteCommand::Delete(k2)) => k1 == k2,
                (ClientWriteCommand::PDelete(k1), ClientWriteCommand::PDelete(k2)) => k1 == k2,
                (ClientWriteCommand::Set(..), _)
                | (ClientWriteCommand::CSet(..), _)
                | (ClientWriteCommand::Delete(_), _)
                | (ClientWriteCommand::PDelete(_), _) => false,
            },
            (LeaderSyncMessage::Init(_), _) | (LeaderSyncMessage::Mut(_), _) => false,
        }
    }
    fn variant(&self) -> &'static str {
        match self {
            LeaderSyncMessage::Init(_) => "sync/init",
            LeaderSyncMessage::Mut(ClientWriteCommand::Set(..)) => "sync/mut/set",
            LeaderSyncMessage::Mut(ClientWriteCommand::CSet(..)) => "sync/mut/cSet",
            LeaderSyncMessage::Mut(ClientWriteCommand::Delete(_)) => "sync/mut/delete",
            LeaderSyncMessage::Mut(ClientWriteCommand::PDelete(_)) => "sync/mut/pDelete",
        }
    }
    fn tid(&self) -> Option<u64> {
        // the CAS version is the only id-like field of the sync messages
        match self {
            LeaderSyncMessage::Mut(ClientWriteCommand::CSet(_, _, v, _)) => Some(*v),
            _ => None,
        }
    }
    fn show(&self) -> String {
        clip(format!("{self:?}"))
    }
}

struct Expected {
    name: &'static str,
    id_field: bool,
    value_field: bool,
}

const fn ex(name: &'static str, id_field: bool, value_field: bool) -> Expected {
    Expected { name, id_field, value_field }
}

/// every variant that must have been exercised (written by hand from the type definitions;
/// the `variant()` functions above are exhaustive matches and may only produce these names)
const EXPECTED: &[Expected] = &[
    ex("client/protocolSwitchRequest", false, false),
    ex("client/authorizationRequest", false, false),
    ex("client/get", true, false),
    ex("client/cGet", true, false),
    ex("client/pGet", true, false),
    ex("client/set", true, true),
    ex("client/cSet", true, true),
    ex("client/sPubInit", true, false),
    ex("client/sPub", true, true),
    ex("client/publish", true, true),
    ex("client/subscribe", true, false),
    ex("client/pSubscribe", true, false),
    ex("client/unsubscribe", true, false),
    ex("client/delete", true, false),
    ex("client/pDelete", true, false),
    ex("client/ls", true, false),
    ex("client/pLs", true, false),
    ex("client/subscribeLs", true, false),
    ex("client/unsubscribeLs", true, false),
    ex("client/lock", true, false),
    ex("client/acquireLock", true, false),
    ex("client/releaseLock", true, false),
    ex("client/transform", true, true),
    ex("server/welcome", false, false),
    ex("server/pState/keyValuePairs", true, false),
    ex("server/pState/deleted", true, false),
    ex("server/ack", true, false),
    ex("server/state/value", true, true),
    ex("server/state/deleted", true, true),
    ex("server/cState", true, true),
    ex("server/err", true, false),
    ex("server/authorized", true, false),
    ex("server/lsState", true, false),
    ex("sync/init", false, false),
    ex("sync/mut/set", false, true),
    ex("sync/mut/cSet", true, true),
    ex("sync/mut/delete", false, false),
    ex("sync/mut/pDelete", false, false),
];

const EXPECTED_OPTIONS: &[&str] = &[
    "client/subscribe.liveOnly",
    "client/pSubscribe.aggregateEvents",
    "client/pSubscribe.liveOnly",
    "client/pDelete.quiet",
    "client/ls.parent",
    "client/pLs.parentPattern",
    "client/subscribeLs.parent",
];

#[derive(Default, Clone)]
struct Cov {
    count: u64,
    id_mask: u32,
    value_mask: u32,
}

#[derive(Default)]
struct Coverage {
    variants: BTreeMap<&'static str, Cov>,
    options: BTreeSet<(&'static str, bool)>,
    error_codes: u32,
    init_entries: u64,
    init_cas_entries: u64,
    init_max_segments: usize,
    max_line: usize,
    max_depth: usize,
}

impl Coverage {
    fn merge(&mut self, o: Coverage) {
        for (k, c) in o.variants {
            let e = self.variants.entry(k).or_default();
            e.count += c.count;
            e.id_mask |= c.id_mask;
            e.value_mask |= c.value_mask;
        }
        self.options.extend(o.options);
        self.error_codes |= o.error_codes;
        self.init_entries += o.init_entries;
        self.init_cas_entries += o.init_cas_entries;
        self.init_max_segments = self.init_max_segments.max(o.init_max_segments);
        self.max_line = self.max_line.max(o.max_line);
        self.max_depth = self.max_depth.max(o.max_depth);
    }

    fn record<T: Family>(&mut self, m: &T, class: Option<usize>) {
        let c = self.variants.entry(m.variant()).or_default();
        c.count += 1;
        if let Some(i) = m.tid().and_then(|t| IDS.iter().position(|x| *x == t)) {
            c.id_mask |= 1 << i;
        }
        if let Some(cl) = class {
            c.value_mask |= 1 << cl;
        }
        let mut o = Vec::new();
        m.options(&mut o);
        self.options.extend(o);
    }
}

// ---------------------------------------------------------------------------------------------
// JSON helpers of the oracle
// ---------------------------------------------------------------------------------------------

fn num_eq(a: &Number, b: &Number) -> bool {
    if let (Some(x), Some(y)) = (a.as_u64(), b.as_u64()) {
        x == y
    } else if let (Some(x), Some(y)) = (a.as_i64(), b.as_i64()) {
        x == y && a.as_u64().is_none() && b.as_u64().is_none()
    } else if a.is_f64() && b.is_f64() {
        match (a.as_f64(), b.as_f64()) {
            (Some(x), Some(y)) => x.to_bits() == y.to_bits(),
            _ => false,
        }
    } else {
        false
    }
}

/// equality of JSON documents: object key order is no information, everything else is
/// (integer vs float, every bit of a float including the sign of zero)
pub fn strict_eq(a: &Value, b: &Value) -> bool {
    match (a, b) {
        (Value::Number(x), Value::Number(y)) => num_eq(x, y),
        (Value::Array(x), Value::Array(y)) => {
            x.len() == y.len() && x.iter().zip(y.iter()).all(|(p, q)| strict_eq(p, q))
        }
        (Value::Object(x), Value::Object(y)) => {
            x.len() == y.len()
                && x.iter().all(|(k, p)| y.get(k).is_some_and(|q| strict_eq(p, q)))
        }
        (Value::Null, Value::Null) => true,
        (Value::Bool(x), Value::Bool(y)) => x == y,
        (Value::String(x), Value::String(y)) => x == y,
        _ => false,
    }
}

/// nesting depth of a JSON text (arrays + objects), without recursion and without serde
pub fn json_depth(text: &str) -> usize {
    let mut depth = 0usize;
    let mut max = 0usize;
    let mut in_string = false;
    let mut escaped = false;
    for b in text.bytes() {
        if in_string {
            if escaped {
                escaped = false;
            } else if b == b'\\' {
                escaped = true;
            } else if b == b'"' {
                in_string = false;
            }
        } else {
            match b {
                b'"' => in_string = true,
                b'[' | b'{' => {
                    depth += 1;
                    max = max.max(depth);
                }
                b']' | b'}' => depth = depth.saturating_sub(1),
                _ => {}
            }
        }
    }
    max
}

/// what the real serde_json makes of the text it prints for `x`
fn float_image(x: f64) -> Option<f64> {
    let text = serde_json::to_string(&x).ok()?;
    serde_json::from_str::<f64>(&text).ok()
}

fn float_is_lossy(x: f64) -> bool {
    float_image(x).map(f64::to_bits) != Some(x.to_bits())
}

fn map_floats(v: &Value, f: &dyn Fn(f64) -> Option<f64>, hits: &mut u64) -> Value {
    match v {
        Value::Number(n) if n.is_f64() => {
            if let Some(x) = n.as_f64()
                && let Some(y) = f(x)
            {
                *hits += 1;
                float(y)
            } else {
                v.clone()
            }
        }
        Value::Array(a) => Value::Array(a.iter().map(|e| map_floats(e, f, hits)).collect()),
        Value::Object(o) => {
            Value::Object(o.iter().map(|(k, e)| (k.clone(), map_floats(e, f, hits))).collect())
        }
        _ => v.clone(),
    }
}

/// signature of Fc14-1: an object with the single key "Cas" holding a two-element array whose second
/// element is an unsigned integer
fn cas_like(v: &Value) -> bool {
    let Value::Object(o) = v else { return false };
    if o.len() != 1 {
        return false;
    }
    let Some(Value::Array(a)) = o.get("Cas") else { return false };
    a.len() == 2 && a[1].as_u64().is_some()
}

/// In the JSON form of a StoreNode (`{"v": entry, "t": {segment: node}}`): drop every `"v": null`
fn drop_null_values(node: &Value) -> Value {
    let Value::Object(o) = node else { return node.clone() };
    let mut out = Map::new();
    for (k, v) in o {
        match k.as_str() {
            "v" if v.is_null() => {}
            "t" => {
                if let Value::Object(children) = v {
                    out.insert(
                        k.clone(),
                        Value::Object(
                            children.iter().map(|(s, n)| (s.clone(), drop_null_values(n))).collect(),
                        ),
                    );
                } else {
                    out.insert(k.clone(), v.clone());
                }
            }
            _ => {
                out.insert(k.clone(), v.clone());
            }
        }
    }
    Value::Object(out)
}

/// is the text non-trivial by the rule stated in the evidence?
fn nontrivial(enc: &str, envelope_depth: usize) -> bool {
    if enc.contains('\\') || !enc.is_ascii() || enc.contains("null") || enc.contains("\"\"") {
        return true;
    }
    if json_depth(enc) > envelope_depth {
        return true;
    }
    // a number with >= 16 digits, a fraction or an exponent (outside strings there are no letters
    // but e/E in numbers and the literals true/false/null)
    let mut in_string = false;
    let mut digits = 0;
    let bytes = enc.as_bytes();
    for (i, b) in bytes.iter().enumerate() {
        if in_string {
            if *b == b'"' {
                in_string = false;
            }
            continue;
        }
        match b {
            b'"' => {
                in_string = true;
                digits = 0;
            }
            b'0'..=b'9' => {
                digits += 1;
                if digits >= 16 {
                    return true;
                }
            }
            b'.' => return true,
            b'e' | b'E' if i > 0 && bytes[i - 1].is_ascii_digit() => return true,
            _ => digits = 0,
        }
    }
    false
}

// ---------------------------------------------------------------------------------------------
// the oracle
// ---------------------------------------------------------------------------------------------

/// what the harness knows about a message beyond the message itself
#[derive(Clone, Default)]
struct Aux {
    /// entries of the StoreNode of an Init message (as accepted by the core)
    entries: Option<Vec<Entry>>,
    seed: u64,
    shard: usize,
    index: usize,
}

struct Failure {
    kind: &'static str,
    info: String,
}

fn fail(kind: &'static str, info: impl Into<String>) -> Failure {
    Failure { kind, info: info.into() }
}

fn same_document(a: &str, b: &str) -> Option<bool> {
    if a == b {
        return Some(true);
    }
    match (serde_json::from_str::<Value>(a), serde_json::from_str::<Value>(b)) {
        (Ok(x), Ok(y)) => Some(strict_eq(&x, &y)),
        // deeper than serde_json can read: cannot be compared as documents
        _ => None,
    }
}

/// properties of the encoding alone
fn check_encoding<T: Family>(m: &T, stats: &mut Stats) -> Result<String, Failure> {
    let enc = serde_json::to_string(m).map_err(|e| fail("message cannot be encoded", e.to_string()))?;
    if enc.contains('\n') || enc.contains('\r') {
        return Err(fail("encoding contains a line break", clip(enc)));
    }
    let copy = m.clone();
    let enc2 = serde_json::to_string(&copy).map_err(|e| fail("message cannot be encoded", e.to_string()))?;
    match same_document(&enc, &enc2) {
        Some(true) => stats.determinism_checked += 1,
        Some(false) => {
            return Err(fail(
                "two encodings of the same message are different JSON documents",
                format!("first: {} second: {}", clip(enc), clip(enc2)),
            ));
        }
        None => stats.determinism_not_comparable += 1,
    }
    Ok(enc)
}

/// the decoded message against the original; `decoded` came from `serde_json::from_str` or from the
/// real transport functions
fn check_decoded<T: Family>(m: &T, enc: &str, decoded: &Result<T, String>) -> Result<(), Failure> {
    let d = match decoded {
        Ok(d) => d,
        Err(e) => return Err(fail("encoding cannot be decoded", e.clone())),
    };
    if !m.same(d) {
        return Err(fail("decoded message differs (PartialEq)", d.show()));
    }
    let (a, b) = match (serde_json::to_value(m), serde_json::to_value(d)) {
        (Ok(a), Ok(b)) => (a, b),
        (Err(e), _) | (_, Err(e)) => return Err(fail("message cannot be turned into a JSON value", e.to_string())),
    };
    if !strict_eq(&a, &b) {
        return Err(fail(
            "decoded message differs (number kind / float bits / sign of zero)",
            d.show(),
        ));
    }
    let enc2 = serde_json::to_string(d).map_err(|e| fail("decoded message cannot be encoded", e.to_string()))?;
    if same_document(enc, &enc2) == Some(false) {
        return Err(fail("re-encoding of the decoded message is a different document", clip(enc2)));
    }
    Ok(())
}

#[derive(Default)]
struct Stats {
    determinism_checked: u64,
    determinism_not_comparable: u64,
    direct_roundtrips: u64,
    transport_roundtrips: u64,
    transport_refused: u64,
    bytes_encoded: u64,
    known: BTreeMap<&'static str, u64>,
    reduced_checked: u64,
}

/// Can the failure be explained by recorded open findings, for exactly the inputs of their
/// signatures? Returns the ids of the findings observed.
///
/// Scheme: `enabled` = open findings whose trigger is present in this very message. The decoded
/// message must equal (strictly, in JSON space) the original with the recorded deviations of
/// the enabled findings applied, and the message with all triggers neutralised (`reduced`, built
/// by the caller through the real core / from_value) must have passed the strict oracle.
fn explain<T: Family>(
    ctx: &Ctx,
    m: &T,
    enc: &str,
    decoded: &Result<T, String>,
    aux: &Aux,
    reduced_ok: &dyn Fn(&[&'static str]) -> bool,
) -> Option<Vec<&'static str>> {
    // Fc14-3: not decodable at all because of the nesting depth
    if let Err(e) = decoded {
        if ctx.findings.open(F_DEPTH, "C14")
            && json_depth(enc) >= RECURSION_LIMIT
            && e.contains("recursion limit exceeded")
        {
            return Some(vec![F_DEPTH]);
        }
        return None;
    }
    let d = decoded.as_ref().ok()?;
    let original = serde_json::to_value(m).ok()?;
    let observed = serde_json::to_value(d).ok()?;

    let mut enabled: Vec<&'static str> = Vec::new();
    let mut expected = original.clone();

    if ctx.findings.open(F_FLOAT, "C14") {
        let mut hits = 0;
        let e = map_floats(&expected, &|x| if float_is_lossy(x) { float_image(x) } else { None }, &mut hits);
        if hits > 0 {
            enabled.push(F_FLOAT);
            expected = e;
        }
    }
    if let Some(entries) = &aux.entries {
        if ctx.findings.open(F_CAS, "C14") && entries.iter().any(|e| e.cas.is_none() && cas_like(&e.value)) {
            // the JSON form of the deviation is identical (that is the defect)
            enabled.push(F_CAS);
        }
        if ctx.findings.open(F_NULL, "C14") && entries.iter().any(|e| e.cas.is_none() && e.value.is_null()) {
            enabled.push(F_NULL);
            if let Some(node) = expected.get_mut("init").and_then(|i| i.get_mut(0)) {
                *node = drop_null_values(node);
            }
        }
    }
    if enabled.is_empty() || !strict_eq(&expected, &observed) {
        return None;
    }
    if !reduced_ok(&enabled) {
        return None;
    }
    Some(enabled)
}

fn neutral_value(v: &Value, enabled: &[&'static str]) -> Value {
    let mut hits = 0;
    if enabled.contains(&F_FLOAT) {
        map_floats(v, &|x| if float_is_lossy(x) { Some(0.5) } else { None }, &mut hits)
    } else {
        v.clone()
    }
}

/// the message without the triggers of the enabled findings, strict oracle
fn reduced_passes<T: Family>(rt: &Runner, m: &T, aux: &Aux, enabled: &[&'static str]) -> bool {
    let reduced: Option<T> = if let Some(entries) = &aux.entries {
        // rebuild the node through the real core
        let entries: Vec<Entry> = entries
            .iter()
            .map(|e| {
                let mut e = e.clone();
                if e.cas.is_none() && enabled.contains(&F_CAS) && cas_like(&e.value) {
                    e.value = json!("was-cas-like");
                }
                if e.cas.is_none() && enabled.contains(&F_NULL) && e.value.is_null() {
                    e.value = json!("was-null");
                }
                e.value = neutral_value(&e.value, enabled);
                e
            })
            .collect();
        let rest = serde_json::to_value(m).ok().and_then(|v| {
            let init = v.get("init")?;
            let gg: Vec<String> = serde_json::from_value(init.get(1)?.clone()).ok()?;
            let lw: Vec<KeyValuePair> =
                serde_json::from_value(neutral_value(init.get(2)?, enabled)).ok()?;
            Some((gg, lw))
        });
        match (rt.run(build_node(&entries)), rest) {
            (Ok((node, _)), Some((gg, lw))) => {
                let msg = LeaderSyncMessage::Init(StateSync(node, gg, lw));
                // T is LeaderSyncMessage here; go through JSON-free conversion by Any
                let boxed: Box<dyn std::any::Any> = Box::new(msg);
                boxed.downcast::<T>().ok().map(|b| *b)
            }
            _ => None,
        }
    } else {
        serde_json::to_value(m)
            .ok()
            .map(|v| neutral_value(&v, enabled))
            .and_then(|v| serde_json::from_value::<T>(v).ok())
    };
    let Some(r) = reduced else { return false };
    let mut s = Stats::default();
    let Ok(enc) = check_encoding(&r, &mut s) else { return false };
    let dec = serde_json::from_str::<T>(&enc).map_err(|e| e.to_string());
    check_decoded(&r, &enc, &dec).is_ok()
}

#[allow(clippy::too_many_arguments)]
fn judge<T: Family>(
    ctx: &Ctx,
    ev: &mut Evidence,
    stats: &mut Stats,
    rt: &Runner,
    m: &T,
    enc: &str,
    decoded: &Result<T, String>,
    aux: &Aux,
    via: &'static str,
) {
    let Err(f) = check_decoded(m, enc, decoded) else { return };
    let reduced_ok = |enabled: &[&'static str]| {
        reduced_passes(rt, m, aux, enabled)
    };
    if let Some(ids) = explain(ctx, m, enc, decoded, aux, &reduced_ok) {
        if !ids.contains(&F_DEPTH) {
            stats.reduced_checked += 1;
        }
        for id in &ids {
            let n = stats.known.entry(*id).or_default();
            *n += 1;
            if *n == 1 && ids.len() == 1 && enc.len() < 700 && ev.wants_sample() {
                ev.sample(json!({"variant": m.variant(), "via": via, "encoding": enc, "depth": json_depth(enc), "verdict": format!("recorded deviation of open finding {id}: {}", f.kind), "observed": clip(f.info.clone())}));
            }
        }
        return;
    }
    report(ctx, ev, m, aux, via, f, Some(enc));
}

fn report<T: Family>(ctx: &Ctx, ev: &mut Evidence, m: &T, aux: &Aux, via: &str, f: Failure, enc: Option<&str>) {
    ev.violation(
        format!("{} [{}] {}", m.variant(), via, f.kind),
        json!({
            "family": T::NAME,
            "variant": m.variant(),
            "via": via,
            "what": f.kind,
            "message": m.show(),
            "encoding": enc.map(|e| clip(e.to_owned())),
            "encoding_depth": enc.map(json_depth),
            "observed": f.info,
            "expected": "decode(encode(m)) == m, one line, same document for every encoding of m",
            "store_entries": aux.entries.as_ref().map(|es| es.iter().take(40).map(|e| json!({"key": e.key, "value": clip(e.value.to_string()), "cas_version": e.cas})).collect::<Vec<_>>()),
            "regenerate": {"seed": aux.seed, "tier": ctx.tier.name(), "shard": aux.shard, "index": aux.index},
        }),
    );
}

// ---------------------------------------------------------------------------------------------
// transport
// ---------------------------------------------------------------------------------------------

/// Sends all messages through one stream with the real writer and reads them with the real reader.
/// result[i] = None if the writer refused message i, else what the reader made of the next line.
async fn through_transport<T: Family>(
    msgs: Vec<T>,
    buffer: usize,
    send_timeout: Option<Duration>,
) -> (Vec<Option<Result<T, String>>>, Vec<String>) {
    let (tx, rx) = tokio::io::duplex(buffer);
    let n = msgs.len();
    let writer = async move {
        let mut tx = tx;
        let mut written = Vec::with_capacity(n);
        for m in msgs {
            written.push(
                write_line_and_flush(&m, &mut tx, send_timeout, "c14-peer")
                    .await
                    .map_err(|e| e.to_string()),
            );
        }
        // dropping tx here ends the stream
        written
    };
    let reader = async move {
        let mut lines = BufReader::new(rx).lines();
        let mut received: Vec<Result<T, String>> = Vec::new();
        loop {
            match receive_msg::<T, _>(&mut lines).await {
                Ok(Some(m)) => received.push(Ok(m)),
                Ok(None) => break,
                Err(e) => received.push(Err(e.to_string())),
            }
            if received.len() > n + 8 {
                break;
            }
        }
        received
    };
    let (written, received) = tokio::join!(writer, reader);
    let mut stray = Vec::new();
    let mut it = received.into_iter();
    let mut out = Vec::with_capacity(n);
    for w in &written {
        match w {
            Ok(()) => out.push(Some(it.next().unwrap_or_else(|| Err("stream ended before this message arrived".to_owned())))),
            Err(_) => out.push(None),
        }
    }
    while out.len() < n {
        out.push(Some(Err("writer task stopped before this message".to_owned())));
    }
    for extra in it {
        stray.push(match extra {
            Ok(m) => m.show(),
            Err(e) => e,
        });
    }
    let refused: Vec<String> = written.into_iter().filter_map(Result::err).collect();
    let mut notes = refused;
    notes.extend(stray.into_iter().map(|s| format!("stray line: {s}")));
    (out, notes)
}

// ---------------------------------------------------------------------------------------------
// one batch of one family
// ---------------------------------------------------------------------------------------------

struct Item<T> {
    msg: T,
    aux: Aux,
    class: Option<usize>,
}

#[allow(clippy::too_many_arguments)]
fn run_batch<T: Family>(
    ctx: &Ctx,
    ev: &mut Evidence,
    stats: &mut Stats,
    cov: &mut Coverage,
    rt: &Runner,
    rng: &mut Rng,
    items: Vec<Item<T>>,
    envelope_depth: usize,
) {
    if items.is_empty() {
        return;
    }
    let mut encs: Vec<Option<String>> = Vec::with_capacity(items.len());
    for it in &items {
        cov.record(&it.msg, it.class);
        match check_encoding(&it.msg, stats) {
            Ok(enc) => {
                stats.bytes_encoded += enc.len() as u64;
                cov.max_line = cov.max_line.max(enc.len());
                let depth = json_depth(&enc);
                cov.max_depth = cov.max_depth.max(depth);
                ev.eval(nontrivial(&enc, envelope_depth).then(|| hash_str(&enc)));
                if ev.samples.len() < 3 && it.aux.index % 7 == 3 && enc.len() < 600 {
                    ev.sample(json!({"variant": it.msg.variant(), "encoding": enc, "bytes": enc.len(), "depth": depth, "verdict": "decoded equal, directly and through write_line_and_flush/receive_msg"}));
                }
                let decoded = serde_json::from_str::<T>(&enc).map_err(|e| e.to_string());
                stats.direct_roundtrips += 1;
                judge(ctx, ev, stats, rt, &it.msg, &enc, &decoded, &it.aux, "serde_json::to_string/from_str");
                encs.push(Some(enc));
            }
            Err(f) => {
                ev.eval(None);
                report(ctx, ev, &it.msg, &it.aux, "serde_json::to_string", f, None);
                encs.push(None);
            }
        }
    }

    // the same messages through the real transport functions, as one stream
    let buffer = *rng.pick(&[16usize, 64, 1024, 1500, 65536]);
    let send_timeout = if rng.chance(1, 2) { Some(Duration::from_secs(3600)) } else { None };
    let msgs: Vec<T> = items.iter().map(|i| i.msg.clone()).collect();
    let res = rt.run(async move {
        tokio::time::timeout(Duration::from_secs(600), through_transport(msgs, buffer, send_timeout)).await
    });
    let (results, notes) = match res {
        Ok(Ok(r)) => r,
        Ok(Err(_)) => {
            // watchdog: environment trouble, never a verdict
            ev.inconclusive += 1;
            return;
        }
        Err(panic) => {
            ev.violation(
                format!("{} transport panicked", T::NAME),
                json!({"panic": panic, "regenerate": {"seed": items[0].aux.seed, "shard": items[0].aux.shard, "first_index": items[0].aux.index}}),
            );
            return;
        }
    };
    for (i, (it, r)) in items.iter().zip(results.iter()).enumerate() {
        let Some(enc) = &encs[i] else { continue };
        match r {
            None => {
                stats.transport_refused += 1;
                report(
                    ctx,
                    ev,
                    &it.msg,
                    &it.aux,
                    "write_line_and_flush",
                    fail("the writer refused the message", notes.first().cloned().unwrap_or_default()),
                    Some(enc),
                );
            }
            Some(decoded) => {
                stats.transport_roundtrips += 1;
                judge(ctx, ev, stats, rt, &it.msg, enc, decoded, &it.aux, "write_line_and_flush/receive_msg");
            }
        }
    }
    for n in notes.iter().filter(|n| n.starts_with("stray line")) {
        ev.violation(
            format!("{} stream carried more lines than messages", T::NAME),
            json!({"observed": n, "regenerate": {"seed": items[0].aux.seed, "shard": items[0].aux.shard, "first_index": items[0].aux.index}}),
        );
    }
}

// ---------------------------------------------------------------------------------------------
// shards
// ---------------------------------------------------------------------------------------------

const BATCH: usize = 96;

/// message `index` of `shard`: family and variant rotate, everything else is drawn from a
/// generator forked from (seed, shard, index)
fn plan(index: usize) -> (usize, usize) {
    // 9 client : 8 server : 3 sync
    let slot = index % 20;
    let round = index / 20;
    match slot {
        0..=8 => (0, (round * 9 + slot) % N_CLIENT),
        9..=16 => (1, (round * 8 + (slot - 9)) % N_SERVER),
        _ => {
            // Init messages need a core each: one in five sync messages
            let k = round * 3 + (slot - 17);
            (2, k % N_SYNC)
        }
    }
}

fn run_shard(ctx: &Ctx, seed: u64, shard: usize, per_shard: usize, only: Option<usize>, ev: &mut Evidence, cov: &Mutex<Coverage>) {
    let rt = Runner::new(false);
    let base = Rng::new(seed).fork(0xC14).fork(shard as u64);
    let mut stats = Stats::default();
    let mut local = Coverage::default();
    let mut batch_rng = base.fork(u64::MAX);

    let mut start = 0;
    while start < per_shard {
        let end = (start + BATCH).min(per_shard);
        let mut clients = Vec::new();
        let mut servers = Vec::new();
        let mut syncs = Vec::new();
        for index in start..end {
            if only.is_some_and(|o| o != index) {
                continue;
            }
            let mut rng = base.fork(index as u64);
            let (family, variant) = plan(index);
            let mut aux = Aux { entries: None, seed, shard, index };
            match family {
                0 => {
                    let (msg, class) = gen_client(&mut rng, variant);
                    clients.push(Item { msg, aux, class });
                }
                1 => {
                    let (msg, class) = gen_server(&mut rng, variant);
                    servers.push(Item { msg, aux, class });
                }
                _ => match gen_sync_plan(&mut rng, variant) {
                    SyncPlan::Mut(cmd, class) => {
                        syncs.push(Item { msg: LeaderSyncMessage::Mut(cmd), aux, class });
                    }
                    SyncPlan::Init(p) => match rt.run(build_node(&p.entries)) {
                        Ok((node, accepted)) => {
                            local.init_entries += accepted.len() as u64;
                            local.init_cas_entries += accepted.iter().filter(|e| e.cas.is_some()).count() as u64;
                            local.init_max_segments = accepted
                                .iter()
                                .map(|e| e.key.split('/').count())
                                .max()
                                .unwrap_or(0)
                                .max(local.init_max_segments);
                            aux.entries = Some(accepted);
                            syncs.push(Item {
                                msg: LeaderSyncMessage::Init(StateSync(node, p.grave_goods, p.last_will)),
                                aux,
                                class: None,
                            });
                        }
                        Err(panic) => {
                            // not this property's business (C01/C17), but never silent
                            ev.count("core_panicked_while_building_a_store_node", 1);
                            if ev.wants_sample() {
                                ev.sample(json!({"core_panic_while_building_node": panic}));
                            }
                        }
                    },
                },
            }
        }
        for it in &servers {
            if let ServerMessage::Err(e) = &it.msg {
                local.error_codes |= 1 << error_code_index(&e.error_code);
            }
        }
        run_batch(ctx, ev, &mut stats, &mut local, &rt, &mut batch_rng, clients, 2);
        run_batch(ctx, ev, &mut stats, &mut local, &rt, &mut batch_rng, servers, 2);
        run_batch(ctx, ev, &mut stats, &mut local, &rt, &mut batch_rng, syncs, 2);
        start = end;
    }

    ev.count("encodings_checked_deterministic (two encodings, same document)", stats.determinism_checked);
    ev.count("encodings_too_deep_to_compare_as_documents", stats.determinism_not_comparable);
    ev.count("roundtrips_direct (to_string/from_str)", stats.direct_roundtrips);
    ev.count("roundtrips_transport (write_line_and_flush/receive_msg)", stats.transport_roundtrips);
    ev.count("bytes_encoded", stats.bytes_encoded);
    ev.count("known_deviation_messages_with_reduced_message_rechecked", stats.reduced_checked);
    for (id, n) in stats.known {
        for _ in 0..n.min(1) {
            ev.known(&ctx.findings, id);
        }
        ev.count(&format!("known_finding_{id}_observations"), n);
    }
    if let Ok(mut c) = cov.lock() {
        c.merge(local);
    }
}

pub fn run(ctx: &Ctx) -> Evidence {
    let mut ev = ctx.evidence("C14", "exploration");
    ev.max_samples = 8;
    let total = ctx.tier.pick(2_000_000usize, 30_000_000usize);
    let shards = ctx.tier.pick(128usize, 512usize);
    let per_shard = total.div_ceil(shards);
    ev.rule = format!(
        "{} generated messages ({shards} shards x {per_shard}; 9 client : 8 server : 3 cluster-sync, variants in rotation): every variant of ClientMessage (23), ServerMessage (8, with value/deleted and keyValuePairs/deleted sub-variants) and LeaderSyncMessage (init, mut set/cSet/delete/pDelete); ids/versions from {{0,1,2^53-1,2^53,2^53+1,2^63-1,2^63,u64::MAX-1,u64::MAX}} + random; keys/patterns/strings from a pool of {} (empty, separators, wildcards, quotes, backslash, \\n, \\r, U+0000, U+2028/9, BOM, noncharacters, astral) + random; options present/absent; JSON values of {} classes ({}); StoreNodes built by a real core (set/cset, forced cset for large versions) and export(). Each message: encode twice, decode, compare by PartialEq and strictly in JSON space, re-encode; then the same through write_line_and_flush -> duplex (buffer 16..65536 bytes) -> receive_msg in streams of up to {BATCH} messages. A message is non-trivial if its encoding contains a string escape, a non-ASCII character, null, an empty string, a number with >=16 digits / fraction / exponent, or a JSON value nested below the envelope; distinct = distinct encodings of non-trivial messages.",
        shards * per_shard,
        STRINGS.len(),
        VALUE_CLASSES.len(),
        VALUE_CLASSES.join(", ")
    );
    ev.assumptions = vec![
        "equality of JSON numbers is what serde_json::Value (built without arbitrary_precision) can represent: u64, i64, f64 by bits".into(),
        "strings are Rust Strings: lone surrogates cannot be represented in a message and are not generated".into(),
        "the harness links the same serde/serde_json versions and features as the server built from /repo's lock file".into(),
    ];

    // replay of one message
    let only: Option<(u64, usize, usize)> = ctx.replay.as_ref().and_then(|p| {
        let doc: Value = serde_json::from_str(&std::fs::read_to_string(p).ok()?).ok()?;
        let r = doc.get("detail")?.get("regenerate")?;
        Some((r.get("seed")?.as_u64()?, r.get("shard")?.as_u64()? as usize, r.get("index")?.as_u64()? as usize))
    });

    let cov = Mutex::new(Coverage::default());
    if let Some((seed, shard, index)) = only {
        let mut e = ev.child();
        run_shard(ctx, seed, shard, index + 1, Some(index), &mut e, &cov);
        ev.merge(e);
        // a replay is one message; make the "observed too little" guard happy without claiming more
        ev.eval(Some(1));
        ev.eval(Some(2));
        ev.rule = format!("replay of message {index} of shard {shard}");
        return ev;
    }

    par_shards(&mut ev, shards, |shard, e| run_shard(ctx, ctx.seed, shard, per_shard, None, e, &cov));

    // ---- coverage: every variant, every boundary id per variant, every value class per value field
    let cov = cov.into_inner().unwrap_or_default();
    let mut missing: Vec<String> = Vec::new();
    let all_ids: u32 = (1 << IDS.len()) - 1;
    let all_classes: u32 = (1 << VALUE_CLASSES.len()) - 1;
    let mut variants = Map::new();
    for x in EXPECTED {
        let c = cov.variants.get(x.name).cloned().unwrap_or_default();
        if c.count == 0 {
            missing.push(format!("variant {} never generated", x.name));
        }
        if x.id_field && c.id_mask != all_ids {
            missing.push(format!("variant {}: boundary ids seen mask {:b} of {:b}", x.name, c.id_mask, all_ids));
        }
        if x.value_field && c.value_mask != all_classes {
            missing.push(format!("variant {}: value classes seen mask {:b} of {:b}", x.name, c.value_mask, all_classes));
        }
        variants.insert(
            x.name.to_owned(),
            json!({"messages": c.count, "boundary_ids_seen": c.id_mask.count_ones(), "value_classes_seen": c.value_mask.count_ones()}),
        );
    }
    for name in cov.variants.keys() {
        if !EXPECTED.iter().any(|x| x.name == *name) {
            missing.push(format!("variant {name} is not in the list of expected variants"));
        }
    }
    for o in EXPECTED_OPTIONS {
        for state in [true, false] {
            if !cov.options.contains(&(*o, state)) {
                missing.push(format!("option {o} never {}", if state { "present" } else { "absent" }));
            }
        }
    }
    let all_codes: u32 = (1 << ALL_ERROR_CODES.len()) - 1;
    if cov.error_codes != all_codes {
        missing.push(format!("error codes seen mask {:b} of {:b}", cov.error_codes, all_codes));
    }
    if cov.init_entries == 0 || cov.init_cas_entries == 0 {
        missing.push("no StoreNode with plain and CAS entries was built".into());
    }
    ev.extra.insert("variants".into(), Value::Object(variants));
    ev.extra.insert(
        "store_nodes".into(),
        json!({"entries_written_through_the_core": cov.init_entries, "cas_entries": cov.init_cas_entries, "max_key_segments": cov.init_max_segments}),
    );
    ev.extra.insert("max_line_bytes".into(), json!(cov.max_line));
    ev.extra.insert("max_document_depth".into(), json!(cov.max_depth));
    ev.extra.insert("error_codes_seen".into(), json!(cov.error_codes.count_ones()));
    ev.extra.insert("option_states_seen".into(), json!(cov.options.len()));
    if ev.inconclusive > 0 {
        ev.extra.insert("note".into(), json!("a transport batch hit the 600 s watchdog: counted inconclusive, not a verdict"));
    }
    if !missing.is_empty() && ev.violations.is_empty() {
        eprintln!("HARNESS-ERROR: property=C14 the generator did not cover what it claims:");
        for m in &missing {
            eprintln!("  {m}");
        }
        cleanup_scratch();
        std::process::exit(2);
    }
    ev
}
