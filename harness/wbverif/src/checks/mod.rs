use crate::{Ctx, evidence::Evidence};

pub mod storeops;

pub mod c01;
pub mod c04;
pub mod smoke;

pub fn run(property: &str, ctx: &Ctx) -> Option<Evidence> {
    match property {
        "C01" => Some(c01::run(ctx)),
        "C04" => Some(c04::run(ctx)),
        "SMOKE" => Some(smoke::run(ctx)),
        _ => None,
    }
}
