use crate::{Ctx, evidence::Evidence};

pub mod storeops;

pub mod c01;
pub mod smoke;

pub fn run(property: &str, ctx: &Ctx) -> Option<Evidence> {
    match property {
        "C01" => Some(c01::run(ctx)),
        "SMOKE" => Some(smoke::run(ctx)),
        _ => None,
    }
}
