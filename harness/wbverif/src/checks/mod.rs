use crate::{Ctx, evidence::Evidence};

pub mod storeops;

pub mod c01;

pub fn run(property: &str, ctx: &Ctx) -> Option<Evidence> {
    match property {
        "C01" => Some(c01::run(ctx)),
        _ => None,
    }
}
