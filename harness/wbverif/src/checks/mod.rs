use crate::{Ctx, evidence::Evidence};

pub mod storeops;

pub mod c01;
pub mod c02;
pub mod c03;
pub mod c03_socket;
pub mod c04;
pub mod c05;
pub mod c06;
pub mod c06_socket;
pub mod c07;
pub mod c08;
pub mod smoke;

pub fn run(property: &str, ctx: &Ctx) -> Option<Evidence> {
    match property {
        "C01" => Some(c01::run(ctx)),
        "C02" => Some(c02::run(ctx)),
        "C03" => Some(c03::run(ctx)),
        "C04" => Some(c04::run(ctx)),
        "C05" => Some(c05::run(ctx)),
        "C06" => Some(c06::run(ctx)),
        "C07" => Some(c07::run(ctx)),
        "C08" => Some(c08::run(ctx)),
        "SMOKE" => Some(smoke::run(ctx)),
        _ => None,
    }
}
