use crate::{Ctx, evidence::Evidence};

pub mod storeops;

pub mod c01;
pub mod c02;
pub mod c03;
pub mod c03_socket;
pub mod c04;
pub mod c05;
pub mod c06;
pub mod c06_socket;
pub mod c07;
pub mod c07_socket;
pub mod c08;
pub mod c09;
pub mod c10;
pub mod c11;
pub mod c11_cluster;
pub mod c12;
pub mod c12_process;
pub mod c13;
pub mod c13_wire;
pub mod c14;
pub mod c15;
pub mod c15_jwt;
pub mod c15_relation;
pub mod c15_session;
pub mod c16;
mod c16_sock;
pub mod c17;
pub mod c17_child;
pub mod c17_gen;
pub mod c18;
pub mod c18_proc;
pub mod c19;
pub mod c19_run;
pub mod c20;
pub mod c20_api;
pub mod c20_buffer;
pub mod c20_fake;
pub mod c20_pairing;
pub mod c20_util;
pub mod smoke;

pub fn run(property: &str, ctx: &Ctx) -> Option<Evidence> {
    match property {
        "C01" => Some(c01::run(ctx)),
        "C02" => Some(c02::run(ctx)),
        "C03" => Some(c03::run(ctx)),
        "C04" => Some(c04::run(ctx)),
        "C05" => Some(c05::run(ctx)),
        "C06" => Some(c06::run(ctx)),
        "C07" => Some(c07::run(ctx)),
        "C08" => Some(c08::run(ctx)),
        "C09" => Some(c09::run(ctx)),
        "C10" => Some(c10::run(ctx)),
        "C11" => Some(c11::run(ctx)),
        "C12" => Some(c12::run(ctx)),
        "C13" => Some(c13::run(ctx)),
        "C14" => Some(c14::run(ctx)),
        "C15" => Some(c15::run(ctx)),
        "C16" => Some(c16::run(ctx)),
        "C17" => Some(c17::run(ctx)),
        "C18" => Some(c18::run(ctx)),
        "C19" => Some(c19::run(ctx)),
        "C20" => Some(c20::run(ctx)),
        "SMOKE" => Some(smoke::run(ctx)),
        _ => None,
    }
}
