//! C20 The client library pairs answers with calls and sends what it was given.
//!
//! Four monitors, all driving the REAL `worterbuch-client` crate (DESIGN.md section 4, C20):
//! 1. pairing + "sends what it was given" against a scripted fake server (`c20_pairing`, `c20_fake`);
//! 2. typed results of the public API against the real in-process server and the reference model,
//!    read-your-writes from many tasks on cloned handles, CAS helpers (`c20_api`);
//! 3. the SendBuffer on the paused clock (local transport, recording API) and on the wire
//!    (`c20_buffer`);
//! 4. unsubscribe of either kind, awaited or fire-and-forget: kind and id of the message at the
//!    fake server (in 1), end of the server-side subscription at the real server (in 2).

use super::{
    c20_api, c20_buffer,
    c20_pairing::{self, PairingParams},
    c20_util::{Open, Report, STOP, stop_requested},
};
use crate::{
    Ctx,
    core::{Runner, par_shards, take_all_panics},
    evidence::Evidence,
    rng::Rng,
    server::{Server, server_config},
};
use serde_json::json;
use std::{future::Future, sync::Arc, time::Duration};
use tokio::sync::Semaphore;

/// runs a scenario; an inconclusive outcome is retried once
async fn with_retry<F, Fut>(f: F) -> Vec<Report>
where
    F: Fn(u64) -> Fut,
    Fut: Future<Output = Report>,
{
    if stop_requested() {
        let mut skipped = Report::default();
        skipped.count("scenarios_skipped_after_a_violation", 1);
        skipped.skipped = true;
        return vec![skipped];
    }
    let first = f(0).await;
    if !first.violations.is_empty() {
        STOP.store(true, std::sync::atomic::Ordering::Relaxed);
    }
    if first.is_inconclusive() && !stop_requested() {
        let second = f(1).await;
        vec![first, second]
    } else {
        vec![first]
    }
}

pub fn run(ctx: &Ctx) -> Evidence {
    let mut ev = ctx.evidence("C20", "exploration");
    ev.max_samples = 6;
    let open = Open::from_ctx(ctx);
    let t = ctx.tier;
    let root = Rng::new(ctx.seed ^ 0xC20);

    let n_pairing = t.pick(200usize, 4000);
    let n_sequences = t.pick(100usize, 2000);
    let n_groups = t.pick(6usize, 120);
    let n_cas = t.pick(10usize, 200);
    let n_local = t.pick(6usize, 60);
    let n_paused = t.pick(200usize, 10_000);
    let n_wire = t.pick(24usize, 480);
    let seq_ops = t.pick(60usize, 90);

    ev.rule = format!(
        "(1) {n_pairing} runs against a scripted fake server (unix socket / loopback TCP alternating): 16-64 tasks on cloned handles of one connection, each 6-10 calls of the whole public API (get/cget/pget/set/cset/publish/delete/pdelete/ls/pls/lock/acquire_lock/release_lock, their *_async variants, subscribe/psubscribe/subscribe_ls with all four unsubscribe variants, spub_init/spub, a group of tasks publishing on ONE stream); every call carries a unique call id, the fake server answers batches in a random interleaving with random delays and echoes the id, so each call must resolve with its own answer; the fake server's log of received messages is matched one-to-one against the calls (kind, every field, transaction ids), the all_messages tap against what the server wrote. A run is non-trivial if >= 4 requests were in flight in one batch and at least one batch was answered out of arrival order; distinct = distinct answer-order permutations (hash of the position of every answer within its batch). \
         (2) {n_sequences} typed API sequences of {seq_ops} operations (types Value/struct/u64/String) each on its own connection to the real in-process server (unix socket) + {n_groups} groups of 8-64 tasks on cloned handles of one connection (own key space each: read-your-writes) + {n_local} sequences over local_client_wrapper, compared call by call with the reference model, subscriptions' channels compared with the all_messages tap and the model, every subscription ended by a random unsubscribe variant and then probed through the server's own API handle; non-trivial = >= 3 accepted writes, >= 1 error answer, >= 1 wildcard result and >= 1 verified subscription event per task; distinct = distinct operation lists. {n_cas} CAS scenarios (2-12 tasks x 3-12 `update` increments and `swap` appends on 1-3 connections). \
         (3) {n_paused} send-buffer scripts on the paused clock (local transport, recording WbApi; 1-3 tasks, 1-3 keys each, 3-14 hand-ins with gaps 0, 1, delay/2, delay-1, delay, delay+1, 2*delay+1 ms, set/publish mixed per key) + {n_wire} scripts on the real clock over a unix socket to the fake server; non-trivial = some values were coalesced and >= 2 messages were sent; distinct = distinct scripts. \
         (4) is part of (1) (message kind + id at the fake server) and (2) (server-side subscription gone, no later event)."
    );

    // ---- (3A) send buffer on the paused clock: deterministic, one runtime per worker thread ----
    {
        let shards = 32usize;
        let rng = root.fork(3);
        par_shards(&mut ev, shards, |shard, ev| {
            let runner = Runner::new(true);
            let mut i = shard;
            while i < n_paused {
                let mut r = rng.fork(i as u64);
                let script = c20_buffer::gen_script(i as u64, &mut r, false);
                let want_sample = i == 0;
                match runner.run(c20_buffer::run_paused(script, open, want_sample)) {
                    Ok(rep) => {
                        rep.apply(ev, &ctx.findings);
                    }
                    Err(panic) => ev.violation(
                        format!("send buffer: panic while running a buffer script: {panic}"),
                        json!({"script": i, "panic": panic}),
                    ),
                }
                i += shards;
            }
        });
    }

    // ---- real servers (own runtimes) ------------------------------------------------------------
    let dir = ctx.scratch("c20");
    let server = match Server::start(server_config(&dir.join("srv"), true), 4) {
        Ok(s) => s,
        Err(e) => {
            eprintln!("HARNESS-ERROR: C20 could not start the in-process server: {e}");
            ev.inconclusive += 1;
            return ev;
        }
    };
    std::fs::create_dir_all(dir.join("srv-local")).ok();
    let local_server = match Server::start(server_config(&dir.join("srv-local"), false), 2) {
        Ok(s) => s,
        Err(e) => {
            eprintln!("HARNESS-ERROR: C20 could not start the second in-process server: {e}");
            ev.inconclusive += 1;
            return ev;
        }
    };
    let socket = server.socket.clone().expect("socket configured");

    // ---- client side: one multi-thread runtime -----------------------------------------------
    let rt = tokio::runtime::Builder::new_multi_thread()
        .worker_threads(12)
        .thread_name("c20-client")
        .enable_all()
        .build()
        .expect("client runtime");
    let reports: Vec<Report> = rt.block_on(async {
        let mut handles: Vec<tokio::task::JoinHandle<Vec<Report>>> = Vec::new();

        // (1) pairing
        let sem = Arc::new(Semaphore::new(8));
        for i in 0..n_pairing {
            let sem = sem.clone();
            let rng = root.fork(1).fork(i as u64);
            let dir = dir.clone();
            handles.push(tokio::spawn(async move {
                let _p = sem.acquire().await;
                with_retry(|attempt| {
                    let mut r = rng.fork(attempt);
                    let p = PairingParams {
                        tasks: r.range(16, 64),
                        calls_per_task: r.range(6, 10),
                        tcp: i % 2 == 1,
                        shared_stream: i % 3 == 0,
                    };
                    c20_pairing::run_one(&dir, i * 2 + attempt as usize, r, p, open)
                })
                .await
            }));
        }

        // (2) typed API vs model on the real server
        let sem2 = Arc::new(Semaphore::new(6));
        for i in 0..n_sequences {
            let sem = sem2.clone();
            let rng = root.fork(2).fork(i as u64);
            let socket = socket.clone();
            let api = server.api.clone();
            handles.push(tokio::spawn(async move {
                let _p = sem.acquire().await;
                with_retry(|attempt| {
                    c20_api::run_group(&socket, api.clone(), format!("c20s{i}a{attempt}"), rng.fork(attempt), 1, seq_ops, false, open, i == 0)
                })
                .await
            }));
        }
        for g in 0..n_groups {
            let sem = sem2.clone();
            let rng = root.fork(4).fork(g as u64);
            let socket = socket.clone();
            let api = server.api.clone();
            handles.push(tokio::spawn(async move {
                let _p = sem.acquire().await;
                with_retry(|attempt| {
                    let mut r = rng.fork(attempt);
                    let tasks = *r.pick(&[8usize, 16, 32, 64]);
                    c20_api::run_group(&socket, api.clone(), format!("c20g{g}a{attempt}"), r, tasks, 25, false, open, g == 0)
                })
                .await
            }));
        }
        for c in 0..n_cas {
            let sem = sem2.clone();
            let rng = root.fork(5).fork(c as u64);
            let socket = socket.clone();
            handles.push(tokio::spawn(async move {
                let _p = sem.acquire().await;
                with_retry(|attempt| {
                    let mut r = rng.fork(attempt);
                    let tasks = r.range(2, 12);
                    let incs = r.range(3, 12);
                    c20_api::run_cas(&socket, format!("c20c{c}a{attempt}"), r, tasks, incs, c == 0)
                })
                .await
            }));
        }
        // local transport: one wrapper at a time (every wrapper is the "internal" client and
        // numbers its transactions from 1)
        {
            let rng = root.fork(6);
            let api = local_server.api.clone();
            let socket = socket.clone();
            handles.push(tokio::spawn(async move {
                let mut out = Vec::new();
                for l in 0..n_local {
                    out.extend(
                        with_retry(|attempt| {
                            c20_api::run_group(&socket, api.clone(), format!("c20l{l}a{attempt}"), rng.fork(l as u64).fork(attempt), 1, 40, true, open, l == 0)
                        })
                        .await,
                    );
                }
                out
            }));
        }

        // (3B) send buffer on the wire
        let sem3 = Arc::new(Semaphore::new(48));
        for i in 0..n_wire {
            let sem = sem3.clone();
            let rng = root.fork(7).fork(i as u64);
            let dir = dir.clone();
            handles.push(tokio::spawn(async move {
                let _p = sem.acquire().await;
                with_retry(|attempt| {
                    let mut r = rng.fork(attempt);
                    let script = c20_buffer::gen_script(1_000_000 + (i as u64) * 2 + attempt, &mut r, true);
                    c20_buffer::run_wire(&dir, script, r, open, i == 0)
                })
                .await
            }));
        }

        let mut all = Vec::new();
        for h in handles {
            match h.await {
                Ok(reports) => all.extend(reports),
                Err(e) => {
                    let mut r = Report::default();
                    r.inconclusive(format!("scenario task failed: {e}"));
                    all.push(r);
                }
            }
        }
        all
    });
    rt.shutdown_timeout(Duration::from_secs(5));
    for rep in reports {
        rep.apply(&mut ev, &ctx.findings);
    }

    // ---- tripwires -----------------------------------------------------------------------------
    let stopped = server.stop(Duration::from_secs(10));
    local_server.stop(Duration::from_secs(10)).ok();
    let failures = worterbuch::verif::take_invariant_failures();
    ev.extra.insert("server_invariant_hook_evaluations".into(), json!(worterbuch::verif::invariant_evaluations()));
    ev.extra.insert("server_invariant_hook_failures".into(), json!(failures.len()));
    if let Some(f) = failures.first() {
        ev.extra.insert("server_invariant_hook_first_failure".into(), json!(f));
    }
    ev.extra.insert("server_stopped_cleanly".into(), json!(format!("{stopped:?}")));
    let panics = take_all_panics();
    ev.extra.insert("panics_in_process".into(), json!(panics.len()));
    if let Some(p) = panics.first() {
        ev.extra.insert("first_panic".into(), json!(p));
    }
    ev.extra.insert("sanitizer".into(), json!("not run by this check (TSan tripwire of the design not built)"));
    ev.assumptions = vec![
        "the fake server and the recording WbApi are harness code: they speak the wire protocol as read from worterbuch-common/src/{client,server}.rs and worterbuch-client/src/lib.rs (handshake) and are themselves validated by the real library connecting to them and by the real-server monitors".to_owned(),
        "reference model (wbverif::model::Store) as oracle for the typed results; key space chosen so that open finding F03 (`P/#` vs key `P`) is never exercised".to_owned(),
        "negative observations (no event after unsubscribe) are made after a barrier request on the same connection plus the server's own API handle reporting the subscription as unknown".to_owned(),
        "send-buffer delays >= 1 ms; real-clock buffer runs end with two canary values through the same buffer and a barrier request on the same connection; watchdog expiry (30 s) of awaited calls is counted as inconclusive unless the library's own tap shows that the answer had arrived".to_owned(),
    ];
    ev
}
