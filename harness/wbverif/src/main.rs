use std::path::PathBuf;
use wbverif::{Ctx, checks, evidence::Tier, findings::Findings};

fn main() {
    let args: Vec<String> = std::env::args().skip(1).collect();
    let mut property = None;
    let mut tier = match std::env::var("VERIF_TIER").as_deref() {
        Ok("thorough") => Tier::Thorough,
        _ => Tier::Quick,
    };
    let mut replay = None;
    let mut i = 0;
    while i < args.len() {
        match args[i].as_str() {
            "--tier" => {
                i += 1;
                tier = match args.get(i).map(String::as_str) {
                    Some("thorough") => Tier::Thorough,
                    Some("quick") => Tier::Quick,
                    other => {
                        eprintln!("HARNESS-ERROR: unknown tier {other:?}");
                        std::process::exit(2);
                    }
                };
            }
            "--replay" => {
                i += 1;
                replay = args.get(i).map(PathBuf::from);
            }
            p => property = Some(p.to_owned()),
        }
        i += 1;
    }
    let Some(property) = property else {
        eprintln!("usage: wbcheck <Cxx> [--tier quick|thorough] [--replay file]");
        std::process::exit(2);
    };
    let seed = std::env::var("VERIF_SEED")
        .ok()
        .and_then(|s| s.trim().parse::<i64>().ok())
        .map(|s| s as u64)
        .unwrap_or(1);
    let ctx = Ctx {
        tier,
        seed,
        findings: Findings::load(),
        replay,
    };
    // hermetic configuration before any thread is started
    let _ = wbverif::core::base_config();
    let code = match checks::run(&property, &ctx) {
        Some(evidence) => evidence.finish(),
        None => {
            eprintln!("HARNESS-ERROR: no check for property {property}");
            2
        }
    };
    wbverif::cleanup_scratch();
    std::process::exit(code);
}
