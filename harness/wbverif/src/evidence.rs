//! Evidence file writer, violation reporting, three-valued verdicts.

use crate::rng::hash_str;
use serde_json::{Map, Value, json};
use std::{
    collections::{BTreeMap, HashSet},
    path::PathBuf,
    time::Instant,
};

#[derive(Clone, Copy, PartialEq, Eq, Debug)]
pub enum Tier {
    Quick,
    Thorough,
}

impl Tier {
    pub fn name(&self) -> &'static str {
        match self {
            Tier::Quick => "quick",
            Tier::Thorough => "thorough",
        }
    }
    /// pick a bound by tier
    pub fn pick<T>(&self, quick: T, thorough: T) -> T {
        match self {
            Tier::Quick => quick,
            Tier::Thorough => thorough,
        }
    }
}

pub fn verif_root() -> PathBuf {
    std::env::var("VERIF_ROOT")
        .map(PathBuf::from)
        .unwrap_or_else(|_| PathBuf::from("/verif"))
}

#[derive(Debug, Clone)]
pub struct Violation {
    pub signature: String,
    pub detail: Value,
}

pub struct Evidence {
    pub property_id: String,
    pub tier: Tier,
    pub seed: u64,
    pub level: &'static str,
    pub rule: String,
    pub exhaustive: bool,
    pub evaluations: u64,
    distinct: HashSet<u64>,
    pub samples: Vec<Value>,
    pub max_samples: usize,
    pub counters: BTreeMap<String, u64>,
    pub extra: Map<String, Value>,
    pub assumptions: Vec<String>,
    pub inconclusive: u64,
    pub violations: Vec<Violation>,
    pub known_seen: BTreeMap<String, u64>,
    started: Instant,
}

impl Evidence {
    pub fn new(property_id: &str, tier: Tier, seed: u64, level: &'static str) -> Self {
        Evidence {
            property_id: property_id.to_owned(),
            tier,
            seed,
            level,
            rule: String::new(),
            exhaustive: false,
            evaluations: 0,
            distinct: HashSet::new(),
            samples: Vec::new(),
            max_samples: 4,
            counters: BTreeMap::new(),
            extra: Map::new(),
            assumptions: Vec::new(),
            inconclusive: 0,
            violations: Vec::new(),
            known_seen: BTreeMap::new(),
            started: Instant::now(),
        }
    }

    /// one scenario was executed; `nontrivial_hash` is Some(hash of the scenario) if it met the
    /// property's non-triviality rule
    pub fn eval(&mut self, nontrivial_hash: Option<u64>) {
        self.evaluations += 1;
        if let Some(h) = nontrivial_hash {
            self.distinct.insert(h);
        }
    }

    pub fn distinct_nontrivial(&self) -> usize {
        self.distinct.len()
    }

    pub fn sample(&mut self, v: Value) {
        if self.samples.len() < self.max_samples {
            self.samples.push(v);
        }
    }

    pub fn wants_sample(&self) -> bool {
        self.samples.len() < self.max_samples
    }

    pub fn count(&mut self, name: &str, n: u64) {
        *self.counters.entry(name.to_owned()).or_default() += n;
    }

    pub fn counter(&self, name: &str) -> u64 {
        self.counters.get(name).copied().unwrap_or(0)
    }

    pub fn violation(&mut self, signature: impl Into<String>, detail: Value) {
        let signature = signature.into();
        // keep one witness per signature, at most 20 signatures
        if self.violations.iter().any(|v| v.signature == signature) || self.violations.len() >= 20 {
            self.count("violations_suppressed_duplicates", 1);
            return;
        }
        self.violations.push(Violation { signature, detail });
    }

    pub fn merge(&mut self, other: Evidence) {
        self.evaluations += other.evaluations;
        self.distinct.extend(other.distinct);
        for s in other.samples {
            self.sample(s);
        }
        for (k, v) in other.counters {
            *self.counters.entry(k).or_default() += v;
        }
        for (k, v) in other.extra {
            self.extra.entry(k).or_insert(v);
        }
        for a in other.assumptions {
            if !self.assumptions.contains(&a) {
                self.assumptions.push(a);
            }
        }
        self.inconclusive += other.inconclusive;
        for v in other.violations {
            self.violation(v.signature, v.detail);
        }
        for (k, v) in other.known_seen {
            *self.known_seen.entry(k).or_default() += v;
        }
    }

    /// a worker's evidence that is later merged into the main one
    pub fn child(&self) -> Evidence {
        let mut e = Evidence::new(&self.property_id, self.tier, self.seed, self.level);
        e.max_samples = self.max_samples;
        e
    }

    /// Writes the evidence file, replay files and prints the verdict lines. Returns the exit code.
    pub fn finish(mut self) -> i32 {
        let root = verif_root();
        let wall_s = self.started.elapsed().as_secs_f64();
        let mut exit = 0;

        for (desc, n) in &self.known_seen {
            println!("KNOWN-FINDING: property={} {} (seen {}x)", self.property_id, desc, n);
        }

        let replay_dir = root.join("replays").join(&self.property_id);
        let mut replay_paths = Vec::new();
        for v in &self.violations {
            std::fs::create_dir_all(&replay_dir).ok();
            let name = format!("{:016x}.json", hash_str(&v.signature));
            let path = replay_dir.join(name);
            let doc = json!({
                "property": self.property_id,
                "seed": self.seed,
                "tier": self.tier.name(),
                "signature": v.signature,
                "detail": v.detail,
            });
            std::fs::write(&path, serde_json::to_string_pretty(&doc).unwrap_or_default()).ok();
            println!(
                "VIOLATION property={} replay={}",
                self.property_id,
                path.display()
            );
            eprintln!("  what: {}", v.signature);
            replay_paths.push(path.display().to_string());
            exit = 1;
        }

        let distinct = self.distinct.len() as u64;
        let mut coverage = Map::new();
        coverage.insert("evaluations".into(), json!(self.evaluations));
        coverage.insert("distinct_nontrivial".into(), json!(distinct));
        coverage.insert("rule".into(), json!(self.rule));
        if self.samples.is_empty() {
            self.samples.push(json!("(no sample recorded)"));
        }
        coverage.insert("samples".into(), json!(self.samples));
        coverage.insert("exhaustive".into(), json!(self.exhaustive));
        coverage.insert("inconclusive".into(), json!(self.inconclusive));
        coverage.insert("observed".into(), json!(self.counters));
        coverage.insert(
            "known_findings_seen".into(),
            json!(self.known_seen.keys().collect::<Vec<_>>()),
        );
        if !replay_paths.is_empty() {
            coverage.insert("replays".into(), json!(replay_paths));
        }
        for (k, v) in self.extra {
            coverage.insert(k, v);
        }
        let doc = json!({
            "property_id": self.property_id,
            "tier": self.tier.name(),
            "seed": self.seed,
            "level": self.level,
            "coverage": coverage,
            "assumptions": self.assumptions,
            "wall_s": wall_s,
            "violations": self.violations.len(),
        });
        let dir = root.join("evidence");
        std::fs::create_dir_all(&dir).ok();
        let path = dir.join(format!("{}.json", self.property_id));
        let tmp = dir.join(format!("{}.json.tmp", self.property_id));
        if std::fs::write(&tmp, serde_json::to_string_pretty(&doc).unwrap_or_default()).is_err()
            || std::fs::rename(&tmp, &path).is_err()
        {
            eprintln!("HARNESS-ERROR: could not write evidence file {}", path.display());
            return 2;
        }

        // a monitor that observed nothing must not pass silently
        if exit == 0 && (self.evaluations == 0 || distinct < 2) {
            eprintln!(
                "HARNESS-ERROR: property={} the monitor observed too little (evaluations={}, distinct_nontrivial={})",
                self.property_id, self.evaluations, distinct
            );
            return 2;
        }
        println!(
            "{} property={} tier={} seed={} evaluations={} distinct_nontrivial={} inconclusive={} wall_s={:.1}",
            if exit == 0 { "HELD" } else { "VIOLATED" },
            self.property_id,
            self.tier.name(),
            self.seed,
            self.evaluations,
            distinct,
            self.inconclusive,
            wall_s
        );
        exit
    }
}
