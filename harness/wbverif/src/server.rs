//! Api / Socket drivers: the real server (`worterbuch::spawn_worterbuch`) running in-process on its
//! own multi-thread runtime; the harness talks to it through the public `CloneableWbApi` handle
//! and/or its unix-domain socket.

use crate::core::base_config;
use std::{
    path::{Path, PathBuf},
    time::Duration,
};
use tokio::sync::oneshot;
use worterbuch::{Config, UnixEndpoint, server::CloneableWbApi};

pub struct Server {
    pub api: CloneableWbApi,
    pub socket: Option<PathBuf>,
    pub config: Config,
    stop_tx: Option<oneshot::Sender<()>>,
    done_rx: std::sync::mpsc::Receiver<Result<(), String>>,
    rt: Option<tokio::runtime::Runtime>,
}

/// hermetic config for an in-process server; unix socket at `dir/wb.sock` if `with_socket`
pub fn server_config(dir: &Path, with_socket: bool) -> Config {
    let mut config = base_config();
    config.data_dir = dir.join("data").to_string_lossy().into_owned();
    std::fs::create_dir_all(&config.data_dir).ok();
    if with_socket {
        config.unix_endpoint = Some(UnixEndpoint {
            path: dir.join("wb.sock"),
        });
    }
    config.shutdown_timeout = Duration::from_secs(5);
    config
}

impl Server {
    /// Starts a server with this config on its own runtime with `workers` worker threads.
    pub fn start(config: Config, workers: usize) -> Result<Server, String> {
        crate::core::install_panic_hook();
        let rt = tokio::runtime::Builder::new_multi_thread()
            .worker_threads(workers.max(1))
            .thread_name("wb-server")
            .enable_all()
            .build()
            .map_err(|e| e.to_string())?;
        let (api_tx, api_rx) = std::sync::mpsc::channel();
        let (done_tx, done_rx) = std::sync::mpsc::channel();
        let (stop_tx, stop_rx) = oneshot::channel::<()>();
        let cfg = config.clone();
        rt.spawn(async move {
            let timeout = cfg.shutdown_timeout;
            let res = tosub::build_root("wb-verif")
                .with_timeout(timeout)
                .start(async move |s| {
                    let api = match worterbuch::spawn_worterbuch(&s, cfg).await {
                        Ok(api) => api,
                        Err(e) => {
                            api_tx.send(Err(e.to_string())).ok();
                            return Err(miette::miette!("could not start worterbuch"));
                        }
                    };
                    api_tx.send(Ok(api)).ok();
                    tokio::select! {
                        _ = stop_rx => s.request_global_shutdown(),
                        _ = s.shutdown_requested() => {},
                    }
                    Ok::<(), miette::Error>(())
                })
                .await;
            done_tx.send(res.map(|_| ()).map_err(|e| format!("{e:?}"))).ok();
        });
        let api = api_rx
            .recv_timeout(Duration::from_secs(30))
            .map_err(|e| format!("server did not start: {e}"))??;
        let socket = config.unix_endpoint.as_ref().map(|e| e.path.clone());
        let server = Server {
            api,
            socket,
            config,
            stop_tx: Some(stop_tx),
            done_rx,
            rt: Some(rt),
        };
        server.wait_ready()?;
        Ok(server)
    }

    fn wait_ready(&self) -> Result<(), String> {
        // the API handle is handed out before persistence is restored; a request that is answered
        // proves that the core loop runs
        let api = self.api.clone();
        let rt = self.rt.as_ref().ok_or("no runtime")?;
        let (tx, rx) = std::sync::mpsc::channel();
        rt.spawn(async move {
            use worterbuch_common::WbApi;
            let r = api.entries().await;
            tx.send(r.is_ok()).ok();
        });
        match rx.recv_timeout(Duration::from_secs(30)) {
            Ok(true) => {}
            other => return Err(format!("server core did not answer: {other:?}")),
        }
        if let Some(path) = &self.socket {
            for _ in 0..3000 {
                if std::os::unix::net::UnixStream::connect(path).is_ok() {
                    return Ok(());
                }
                std::thread::sleep(Duration::from_millis(2));
            }
            return Err(format!("unix socket {} did not come up", path.display()));
        }
        Ok(())
    }

    /// has the server ended by itself (e.g. a follower that lost its leader)?
    pub fn try_finished(&self) -> Option<Result<(), String>> {
        self.done_rx.try_recv().ok()
    }

    pub fn wait_finished(&self, timeout: Duration) -> Option<Result<(), String>> {
        self.done_rx.recv_timeout(timeout).ok()
    }

    /// clean stop: shutdown request, wait for the subsystems (persistence hook etc.) to finish.
    /// Ok(true) = stopped cleanly within the timeout.
    pub fn stop(mut self, timeout: Duration) -> Result<bool, String> {
        if let Some(tx) = self.stop_tx.take() {
            tx.send(()).ok();
        }
        let finished = self.done_rx.recv_timeout(timeout);
        if let Some(rt) = self.rt.take() {
            rt.shutdown_timeout(Duration::from_secs(2));
        }
        match finished {
            Ok(Ok(())) => Ok(true),
            Ok(Err(e)) => Err(e),
            Err(_) => Ok(false),
        }
    }

    /// abrupt end: every task of the server is dropped at its next suspension point, nothing is
    /// flushed (the in-process stand-in for a process kill)
    pub fn kill(mut self) {
        if let Some(rt) = self.rt.take() {
            rt.shutdown_background();
        }
    }
}

impl Drop for Server {
    fn drop(&mut self) {
        if let Some(tx) = self.stop_tx.take() {
            tx.send(()).ok();
        }
        if let Some(rt) = self.rt.take() {
            rt.shutdown_background();
        }
    }
}
