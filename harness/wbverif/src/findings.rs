//! Known findings: committed file /verif/known_findings.json, read-only at run time.
//!
//! An `open` finding has an id and a human readable signature text. The code that relaxes an
//! oracle for exactly the inputs of a finding asks `Findings::open(id)`; when the deviation is then
//! actually observed it calls `Evidence::known(...)`, which makes the run print
//! `KNOWN-FINDING: property=<id> <what fails>` and go on. `fixed` entries relax nothing.

use crate::evidence::{Evidence, verif_root};
use serde_json::Value;
use std::collections::BTreeMap;

#[derive(Debug, Clone)]
pub struct Finding {
    pub id: String,
    pub property: String,
    pub also_explains: Vec<String>,
    pub status: String,
    pub what_fails: String,
}

#[derive(Debug, Clone, Default)]
pub struct Findings {
    by_id: BTreeMap<String, Finding>,
}

impl Findings {
    pub fn load() -> Findings {
        let path = verif_root().join("known_findings.json");
        let mut by_id = BTreeMap::new();
        if let Ok(text) = std::fs::read_to_string(&path)
            && let Ok(doc) = serde_json::from_str::<Value>(&text)
            && let Some(list) = doc.get("findings").and_then(Value::as_array)
        {
            for f in list {
                let s = |k: &str| f.get(k).and_then(Value::as_str).unwrap_or("").to_owned();
                let finding = Finding {
                    id: s("id"),
                    property: s("property"),
                    also_explains: f
                        .get("also_explains")
                        .and_then(Value::as_array)
                        .map(|a| a.iter().filter_map(|v| v.as_str().map(str::to_owned)).collect())
                        .unwrap_or_default(),
                    status: s("status"),
                    what_fails: s("what_fails"),
                };
                by_id.insert(finding.id.clone(), finding);
            }
        }
        Findings { by_id }
    }

    /// the finding with this id is recorded as open and applies to `property`
    pub fn open(&self, id: &str, property: &str) -> bool {
        self.by_id.get(id).is_some_and(|f| {
            f.status == "open" && (f.property == property || f.also_explains.iter().any(|p| p == property))
        })
    }

    pub fn describe(&self, id: &str) -> String {
        self.by_id
            .get(id)
            .map(|f| format!("{}: {}", f.id, f.what_fails))
            .unwrap_or_else(|| id.to_owned())
    }
}

impl Evidence {
    /// the deviation recorded as finding `id` was observed (only call when `findings.open(id, ..)`)
    pub fn known(&mut self, findings: &Findings, id: &str) {
        *self.known_seen.entry(findings.describe(id)).or_default() += 1;
    }
}
