#!/bin/bash
# ./sanitize.sh tsan|asan <Cxx> [<Cyy> ...]
# Tripwire pass: rebuilds the harness (and /repo's crates) with a compiler sanitizer on the nightly toolchain and
# runs the quick tier of the given checks under it. One sanitizer family per build, own target directory.
# A sanitizer report makes the run fail (halt_on_error); reports are collected in /verif/.scratch/sanitizer-*.log.
# Exit: 0 = no report, 1 = report(s) (listed), 2 = could not build/run (never a verdict).
set -u
KIND=${1:-}; shift || true
[ -z "$KIND" ] || [ $# -eq 0 ] && { echo "usage: ./sanitize.sh tsan|asan <Cxx> ..."; exit 2; }
cd /verif/harness || exit 2
export CARGO_NET_OFFLINE=true
mkdir -p /verif/.scratch
case $KIND in
  tsan) export RUSTFLAGS="-Zsanitizer=thread -Cforce-frame-pointers=yes -Cunsafe-allow-abi-mismatch=sanitizer"; EXTRA="-Zbuild-std"; export TSAN_OPTIONS="halt_on_error=0 second_deadlock_stack=1 log_path=/verif/.scratch/sanitizer-tsan.log";;
  asan) export RUSTFLAGS="-Zsanitizer=address -Cforce-frame-pointers=yes"; EXTRA=""; export ASAN_OPTIONS="halt_on_error=1 abort_on_error=0 detect_leaks=0 log_path=/verif/.scratch/sanitizer-asan.log";;
  *) echo "unknown sanitizer $KIND"; exit 2;;
esac
rm -f /verif/.scratch/sanitizer-$KIND.log*
TD=/verif/target-$KIND
if ! cargo +nightly build $EXTRA --offline --target x86_64-unknown-linux-gnu --target-dir $TD 2>/verif/.scratch/sanitizer-$KIND-build.log; then
  echo "SANITIZER-UNAVAILABLE: $KIND build failed (see /verif/.scratch/sanitizer-$KIND-build.log)"; tail -5 /verif/.scratch/sanitizer-$KIND-build.log; exit 2
fi
RC=0
for ID in "$@"; do
  OUT=$(VERIF_ROOT=/verif/.scratch/sanitizer-root-$KIND $TD/x86_64-unknown-linux-gnu/debug/wbcheck $ID --tier quick 2>&1); rc=$?
  echo "$KIND $ID exit=$rc :: $(echo "$OUT" | grep -E '^(HELD|VIOLATED|HARNESS-ERROR)' | tail -1)"
done
N=$(cat /verif/.scratch/sanitizer-$KIND.log* 2>/dev/null | grep -c -E "WARNING: ThreadSanitizer|ERROR: AddressSanitizer")
echo "$KIND reports: $N"
if [ "$N" -gt 0 ]; then
  cat /verif/.scratch/sanitizer-$KIND.log* | grep -E "WARNING: ThreadSanitizer|ERROR: AddressSanitizer|^    #[0-9]+ .*(worterbuch|wbverif)" | sort | uniq -c | sort -rn | head -30
  RC=1
fi
exit $RC
