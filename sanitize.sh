#!/bin/bash
# ./sanitize.sh tsan|asan <Cxx> [<Cyy> ...]
# Tripwire pass: rebuilds the harness (and /repo's crates) with a compiler sanitizer on the nightly toolchain and
# runs the quick tier of the given checks under it. One sanitizer family per build, own target directory.
# A sanitizer report makes the run fail (halt_on_error); reports are collected in /verif/.scratch/sanitizer-*.log.
# Exit: 0 = no report, 1 = report(s) (listed), 2 = could not build/run (never a verdict).
set -u
KIND=${1:-}; shift || true
[ -z "$KIND" ] || [ $# -eq 0 ] && { echo "usage: ./sanitize.sh tsan|asan <Cxx> ..."; exit 2; }
cd /verif/harness || exit 2
export CARGO_NET_OFFLINE=true
mkdir -p /verif/.scratch
case $KIND in
  tsan) export RUSTFLAGS="-Zsanitizer=thread -Cforce-frame-pointers=yes -Cunsafe-allow-abi-mismatch=sanitizer"; EXTRA="-Zbuild-std"; export TSAN_OPTIONS="halt_on_error=0 second_deadlock_stack=1 log_path=/verif/.scratch/sanitizer-tsan.log";;
  asan) export RUSTFLAGS="-Zsanitizer=address -Cforce-frame-pointers=yes"; EXTRA=""; export ASAN_OPTIONS="halt_on_error=1 abort_on_error=0 detect_leaks=0 log_path=/verif/.scratch/sanitizer-asan.log";;
  *) echo "unknown sanitizer $KIND"; exit 2;;
esac
rm -f /verif/.scratch/sanitizer-$KIND.log*
TD=/verif/target-$KIND
if ! cargo +nightly build $EXTRA --offline --target x86_64-unknown-linux-gnu --target-dir $TD 2>/verif/.scratch/sanitizer-$KIND-build.log; then
  echo "SANITIZER-UNAVAILABLE: $KIND build failed (see /verif/.scratch/sanitizer-$KIND-build.log)"; tail -5 /verif/.scratch/sanitizer-$KIND-build.log; exit 2
fi
RC=0
for ID in "$@"; do
  OUT=$(VERIF_ROOT=/verif/.scratch/sanitizer-root-$KIND $TD/x86_64-unknown-linux-gnu/debug/wbcheck $ID --tier quick 2>&1); rc=$?
  echo "$KIND $ID exit=$rc :: $(echo "$OUT" | grep -E '^(HELD|VIOLATED|HARNESS-ERROR)' | tail -1)"
done
# A report counts only if one of the racing / faulting accesses (top 6 frames of either stack) is in one of /repo's
# crates. ThreadSanitizer does not see the synchronisation tokio's I/O driver gets from epoll, so races between
# `RegistrationSet::allocate` and `Driver::turn` / `ScheduledIo::wake` inside tokio are expected false positives.
python3 - "$KIND" <<'PY'
import re, glob, collections, sys
kind = sys.argv[1]
reports = []
for f in glob.glob(f"/verif/.scratch/sanitizer-{kind}.log*"):
    txt = open(f, errors="replace").read()
    reports += re.split(r"WARNING: ThreadSanitizer:|ERROR: AddressSanitizer:", txt)[1:]
cls = collections.Counter(); inrepo = 0
for r in reports:
    stacks = re.split(r"\n\s*\n", r)
    tops = []
    for st in stacks[:2]:
        frames = re.findall(r"#(\d+) (\S.*?) (?:<null>|\S+) \(wbcheck", st)
        tops.append([f for n, f in frames if int(n) < 6])
    hit = any(re.search(r"\bworterbuch(_common|_client|_cluster_orchestrator)?::", f) for t in tops for f in t)
    inrepo += hit
    cls[(hit, tuple(t[0][:90] if t else "?" for t in tops))] += 1
print(f"{kind} reports: {len(reports)} (with a frame of /repo's crates among the racing accesses: {inrepo}, runtime-internal: {len(reports) - inrepo})")
for (hit, tops), n in cls.most_common(10):
    print(f"  {n:4} {'IN-REPO ' if hit else 'runtime '} {tops}")
sys.exit(1 if inrepo else 0)
PY
exit $?
