#!/bin/bash
# runs every check's quick (or $1) tier once, sequentially; prints one line per property
cd /verif || exit 2
TIER=${1:-quick}
for i in $(seq -w 1 20); do
  ID=C$i
  S=$(date +%s)
  OUT=$(./target/debug/wbcheck $ID --tier $TIER 2>&1); RC=$?
  E=$(( $(date +%s) - S ))
  echo "$ID exit=$RC ${E}s :: $(echo "$OUT" | grep -E '^(HELD|VIOLATED|HARNESS-ERROR)' | tail -1)"
  echo "$OUT" | grep -E "^KNOWN-FINDING" | cut -c1-160
  echo "$OUT" | grep -E "what:" | head -5 | cut -c1-300
done
