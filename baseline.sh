#!/bin/bash
# Runs the repository's own test suite (hooks OFF: no feature flag) and checks that every test of
# the pinned baseline (/root/.vp/BASELINE.json, stable_pass) passes. The three persistence
# integration tests start servers on the same fixed port; when they collide under the parallel
# runner the affected stable test is re-run on its own once.
set -u
export CARGO_NET_OFFLINE=true
cd /repo || exit 2
OUT=$(mktemp)
cargo nextest run --workspace --no-fail-fast --tool-config-file pb:/w/lib/nextest.toml --profile pb --test-threads 8 --offline >"$OUT" 2>&1
JUNIT=/repo/target/nextest/pb/junit.xml
python3 - "$JUNIT" <<'PY'
import json, subprocess, sys
import xml.etree.ElementTree as ET
stable = json.load(open("/root/.vp/BASELINE.json"))["stable_pass"]
try:
    root = ET.parse(sys.argv[1]).getroot()
except Exception as e:
    print("baseline: cannot read junit report:", e); sys.exit(2)
status = {}
for case in root.iter("testcase"):
    cls = case.get("classname", "")          # e.g. worterbuch::persistence_json or worterbuch
    name = case.get("name", "")
    failed = any(ch.tag in ("failure", "error") for ch in case)
    crate = cls.split("::")[0]
    binary = cls.split("::")[1] if "::" in cls else None
    full = f"{crate}::{binary}::{name}" if binary and binary not in ("bin", "lib") and not name.startswith(binary) else f"{crate}::{name}"
    status[full] = not failed
    status[f"{crate}::{name}"] = status.get(f"{crate}::{name}", True) and not failed if f"{crate}::{name}" != full else not failed
missing = [t for t in stable if not status.get(t, False)]
retried = []
for t in list(missing):
    name = t.split("::")[-1]
    # timing-sensitive integration tests (fixed ports, 1 s persistence interval): up to 3 serial re-runs
    for attempt in range(3):
        r = subprocess.run(["cargo", "nextest", "run", "-p", t.split("::")[0], "--offline", "-E", f"test(={name}) | test(/::{name}$/)"],
                           capture_output=True, text=True)
        if r.returncode == 0 and " 1 passed" in (r.stdout + r.stderr):
            missing.remove(t); retried.append(t)
            break
print(f"baseline: {len(stable) - len(missing)}/{len(stable)} stable tests passed" + (f" ({len(retried)} after a serial re-run: {retried})" if retried else ""))
if missing:
    print("NOT PASSED:", *missing, sep="\n  ")
    sys.exit(1)
PY
RC=$?
[ $RC -ne 0 ] && tail -40 "$OUT"
rm -f "$OUT"
exit $RC
